SPECIFICATION Spec
CONSTANTS Files = {"a", "b", "c"}
          NDIR = 1
          KINDS = {"ens", "inc", "init"}
INVARIANT Emit
INVARIANT StackBounded
INVARIANT NoDoubleLoad
INVARIANT NoDoubleInclude
PROPERTY Terminates
PROPERTY ErrorKeeps
