SPECIFICATION GSpec
CONSTANTS N1 = 3
          N2 = 0
          ND = 0
          NCTX = 4
          ALPHA = "cuts"
CHECK_DEADLOCK FALSE
INVARIANT Emit
INVARIANT BarrierOK
PROPERTY CutExact
CONSTRAINT Bound
