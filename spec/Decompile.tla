------------------------------ MODULE Decompile ------------------------------
(* C10: the meaning of a compiled clause. Decompile(rec) reads the ZIP bytecode of a clause as the    *)
(* clause term it denotes: head arguments from the get_* instructions, body goals from the put_* ...   *)
(* call sequences, cut, exit; every *_functor / *_list / *_partial must be closed by its pop.          *)
(* Denotes(rec): the decompiled clause is a variant of the stored term read the way the compiler      *)
(* reads a clause (conjunctions flattened, a variable goal = call/1, a top-level disjunction split     *)
(* into alternatives, if-then-else kept). This direction does not depend on which Go representation   *)
(* (list, partial, './2 compound, string) a subterm happened to have.                                  *)
(* The records come from the accessor hook: one line per compiled clause of the real interpreter.      *)
EXTENDS Terms, Json, IOUtils

\* total: reading past the end of a malformed instruction sequence gives the pseudo instruction "eof", and Decompile
\* then yields a term containing '$bad', which denotes nothing
Op(c, i) == IF i >= 1 /\ i <= Len(c) THEN c[i][1] ELSE "eof"
Arg(c, i) == IF i >= 1 /\ i <= Len(c) THEN c[i][2] ELSE <<"i", 0>>
Bad == A("$bad")
PIName(t) == t[3][1][2]
PIArity(t) == t[3][2][2]

\* parse n argument terms starting at instruction i; kind = "get" | "put". Returns [ts, i]
RECURSIVE ParseArgs(_,_,_,_)
ParseOne(c, i, kind) ==
  LET op == Op(c, i) IN
  CASE op = kind \o "_const" -> [t |-> Arg(c, i), i |-> i + 1]
    [] op = kind \o "_var" -> [t |-> V(Arg(c, i)[2] + 1), i |-> i + 1]
    [] op = kind \o "_functor" ->
         LET r == ParseArgs(c, i + 1, PIArity(Arg(c, i)), kind) IN
         [t |-> IF Op(c, r.i) = "pop" THEN C(PIName(Arg(c, i)), r.ts) ELSE Bad, i |-> r.i + 1]
    [] op = kind \o "_list" ->
         LET r == ParseArgs(c, i + 1, Arg(c, i)[2], kind) IN [t |-> IF Op(c, r.i) = "pop" THEN MkList(r.ts) ELSE Bad, i |-> r.i + 1]
    [] op = kind \o "_partial" ->
         LET tl == ParseArgs(c, i + 1, 1, kind)
             r == ParseArgs(c, tl.i, Arg(c, i)[2], kind)
         IN [t |-> IF Op(c, r.i) # "pop" \/ tl.ts = <<>> THEN Bad
                   ELSE LET RECURSIVE PL(_,_) PL(s, t) == IF s = <<>> THEN t ELSE Cons(s[1], PL(Tail(s), t)) IN PL(r.ts, tl.ts[1]), i |-> r.i + 1]
    [] OTHER -> [t |-> Bad, i |-> Len(c) + 2]
ParseArgs(c, i, n, kind) ==
  IF n <= 0 \/ i > Len(c) + 1 THEN [ts |-> [k \in 1..(IF n > 0 THEN n ELSE 0) |-> Bad], i |-> i]
  ELSE LET one == ParseOne(c, i, kind)
           rest == ParseArgs(c, one.i, n - 1, kind)
       IN [ts |-> <<one.t>> \o rest.ts, i |-> rest.i]

\* body goals from instruction i (after enter) up to exit
RECURSIVE ParseGoals(_,_)
ParseGoals(c, i) ==
  IF Op(c, i) = "exit" THEN <<>>
  ELSE IF Op(c, i) = "eof" THEN <<Bad>>
  ELSE IF Op(c, i) = "cut" THEN <<A("!")>> \o ParseGoals(c, i + 1)
  ELSE \* arguments until the call instruction: count them by scanning to the matching call
       LET RECURSIVE Scan(_,_)      \* parse argument terms until a call instruction is reached
           Scan(j, acc) == IF Op(c, j) \in {"call", "eof"} THEN [ts |-> acc, i |-> j]
                           ELSE LET one == ParseOne(c, j, "put") IN Scan(one.i, Append(acc, one.t))
           s == Scan(i, <<>>)
           pi == Arg(c, s.i)
       IN IF Op(c, s.i) = "eof" \/ ~(IsCmp(pi) /\ Len(pi[3]) = 2) THEN <<Bad>>
          ELSE <<(IF PIArity(pi) = 0 THEN A(PIName(pi)) ELSE IF Len(s.ts) = PIArity(pi) THEN C(PIName(pi), s.ts) ELSE Bad)>> \o ParseGoals(c, s.i + 1)

RECURSIVE Conj(_)
Conj(s) == IF Len(s) = 1 THEN s[1] ELSE C(",", <<s[1], Conj(Tail(s))>>)

Decompile(rec) ==
  LET c == rec.code
      h == ParseArgs(c, 1, rec.arity, "get")
      head == IF rec.arity = 0 THEN A(rec.pred) ELSE C(rec.pred, h.ts)
  IN IF Op(c, h.i) = "exit" THEN head
     ELSE IF Op(c, h.i) # "enter" THEN Bad
     ELSE LET gs == ParseGoals(c, h.i + 1) IN C(":-", <<head, IF gs = <<>> THEN A("true") ELSE Conj(gs)>>)

\* the stored term, normalised the way the compiler reads it: right spine of ',' flattened, variable goals as call/1,
\* a top-level disjunction split into alternatives (if-then-else kept whole)
RECURSIVE Spine(_)
Spine(b) == IF IsCmp(b) /\ b[2] = "," /\ Len(b[3]) = 2 THEN Spine(b[3][1]) \o Spine(b[3][2]) ELSE <<b>>        \* conjunctions are flattened wherever they nest
NormGoal(g) == IF IsVar(g) THEN C("call", <<g>>) ELSE g
NormBody(b) == Conj([i \in 1..Len(Spine(b)) |-> NormGoal(Spine(b)[i])])
RECURSIVE Alts(_)
Alts(b) == IF IsCmp(b) /\ b[2] = ";" /\ Len(b[3]) = 2 /\ ~(IsCmp(b[3][1]) /\ b[3][1][2] = "->" /\ Len(b[3][1][3]) = 2)
           THEN <<b[3][1]>> \o Alts(b[3][2]) ELSE <<b>>
Denotes(rec) ==
  LET d == Decompile(rec) raw == rec.raw IN
  IF IsCmp(raw) /\ raw[2] = ":-" /\ Len(raw[3]) = 2
  THEN \E i \in 1..Len(Alts(raw[3][2])) : Variant(d, C(":-", <<raw[3][1], NormBody(Alts(raw[3][2])[i])>>))
  ELSE Variant(d, raw)

NVarsOK(rec) == rec.nvars = Len(TermVars(Decompile(rec)))

=============================================================================
