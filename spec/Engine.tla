------------------------------- MODULE Engine -------------------------------
(* Abstract machine for ISO Prolog execution: the reference semantics of C01 C03 C04 C09    *)
(* C10 C11 (and, through generated programs, C02 C08 C16 C17).                              *)
(* The whole machine state is one record; Steps(s) is the set of successor states.          *)
(*                                                                                          *)
(*   goals  : sequence of frames [g |-> goal, cb |-> cut barrier]; cb is the height of cps  *)
(*            to which a cut executed as this goal (or as a transparent sub-goal) cuts back *)
(*   bind   : binding store                                                                 *)
(*   cps    : choice-point stack (see the kinds below); top = last element                  *)
(*   db     : sequence of predicates [key, dyn, cls] ; cls = sequence of [id, head, body, nv]*)
(*   out    : sequence of strings written since the last observable event                   *)
(*   nid    : next fresh identifier (clause ids, marker ids)                                *)
(*   status : "run" | "answer" | "done" | "error" | "closed" | "sto"                        *)
(*            "sto": a unification subject to occurs check was met (ISO: undefined); the    *)
(*            run is not judged from there on                                               *)
(*   ball   : the uncaught ball when status = "error"                                       *)
(*   ev     : observable event produced by the step that led to this state, or NoEv         *)
(*   qv     : number of query variables (store slots 1..qv)                                 *)
(*   vardep : TRUE once a setof/3 had to order two terms whose order hinges on the order of *)
(*            two distinct unbound variables (implementation dependent, ISO 7.2)            *)
(*   ukeys  : the predicate keys of the program text (constant); their call ports are the   *)
(*            observable "call" events                                                      *)
EXTENDS Terms, IOUtils

Dev_CatchAfterExit == "DEV_CATCH" \in DOMAIN IOEnv /\ IOEnv.DEV_CATCH = "1"

NoEv == [ev |-> "none"]

Frame(g, cb) == [g |-> g, cb |-> cb]
Ctl(tag, x) == <<"$", tag, x>>          \* control frames are not terms
IsCtl(g) == g[1] = "$"

TrueA == A("true")
FailA == A("fail")

Err(formal) == C("error", <<formal, A("$ctx")>>)     \* context argument is implementation defined
TypeErr(ty, culprit) == Err(C("type_error", <<A(ty), culprit>>))
InstErr == Err(A("instantiation_error"))
ExistProc(key) == Err(C("existence_error", <<A("procedure"), C("/", <<A(key[1]), I(key[2])>>)>>))
PermModStatic(key) == Err(C("permission_error", <<A("modify"), A("static_procedure"), C("/", <<A(key[1]), I(key[2])>>)>>))
PermAccessPrivate(key) == Err(C("permission_error", <<A("access"), A("private_procedure"), C("/", <<A(key[1]), I(key[2])>>)>>))
EvalErr(e) == Err(C("evaluation_error", <<A(e)>>))

-----------------------------------------------------------------------------
\* database helpers
HasPred(db, key) == \E i \in 1..Len(db) : db[i].key = key
PredIdx(db, key) == CHOOSE i \in 1..Len(db) : db[i].key = key
Pred(db, key) == db[PredIdx(db, key)]

\* a clause term (resolved) -> stored clause with local numbering 1..nv
SplitClause(t) == IF IsCmp(t) /\ t[2] = ":-" /\ Len(t[3]) = 2 THEN [head |-> t[3][1], body |-> t[3][2]]
                  ELSE [head |-> t, body |-> TrueA]
MkClause(t, b, id) ==
  LET r == Resolve(t, b)
      vs == TermVars(r)
      sc == SplitClause(Renum(r, vs, 0))
  IN [id |-> id, head |-> sc.head, body |-> sc.body, nv |-> Len(vs)]
ClauseTerm(c) == IF c.body = TrueA THEN c.head ELSE C(":-", <<c.head, c.body>>)
RuleTerm(c) == C(":-", <<c.head, c.body>>)

-----------------------------------------------------------------------------
\* arithmetic on small integers (exact; the 64-bit rules live in Arith.tla)
RECURSIVE Eval(_,_)
Eval(t, b) ==
  LET w == Walk(t, b) IN
  IF IsVar(w) THEN [ok |-> FALSE, err |-> InstErr]
  ELSE IF IsInt(w) THEN [ok |-> TRUE, v |-> w[2]]
  ELSE IF IsAtom(w) THEN [ok |-> FALSE, err |-> TypeErr("evaluable", C("/", <<w, I(0)>>))]
  ELSE IF IsCmp(w) /\ Len(w[3]) = 2 /\ w[2] \in {"+", "-", "*", "//", "mod", "min", "max"} THEN
       LET x == Eval(w[3][1], b) IN
       IF ~x.ok THEN x ELSE
       LET y == Eval(w[3][2], b) IN
       IF ~y.ok THEN y ELSE
       CASE w[2] = "+" -> [ok |-> TRUE, v |-> x.v + y.v]
         [] w[2] = "-" -> [ok |-> TRUE, v |-> x.v - y.v]
         [] w[2] = "*" -> [ok |-> TRUE, v |-> x.v * y.v]
         [] w[2] = "min" -> [ok |-> TRUE, v |-> IF x.v < y.v THEN x.v ELSE y.v]
         [] w[2] = "max" -> [ok |-> TRUE, v |-> IF x.v > y.v THEN x.v ELSE y.v]
         [] w[2] = "//" -> IF y.v = 0 THEN [ok |-> FALSE, err |-> EvalErr("zero_divisor")]
                           ELSE [ok |-> TRUE, v |-> (IF (x.v < 0) = (y.v < 0) THEN (IF x.v < 0 THEN (-x.v) \div (-y.v) ELSE x.v \div y.v)
                                                     ELSE -((IF x.v < 0 THEN -x.v ELSE x.v) \div (IF y.v < 0 THEN -y.v ELSE y.v)))]
         [] w[2] = "mod" -> IF y.v = 0 THEN [ok |-> FALSE, err |-> EvalErr("zero_divisor")]
                            ELSE [ok |-> TRUE, v |-> x.v - (x.v \div y.v) * y.v]   \* TLA+ \div floors: result has the sign of y
  ELSE IF IsCmp(w) /\ Len(w[3]) = 1 /\ w[2] \in {"-", "+", "abs"} THEN
       LET x == Eval(w[3][1], b) IN
       IF ~x.ok THEN x ELSE
       CASE w[2] = "-" -> [ok |-> TRUE, v |-> -x.v]
         [] w[2] = "+" -> x
         [] w[2] = "abs" -> [ok |-> TRUE, v |-> IF x.v < 0 THEN -x.v ELSE x.v]
  ELSE [ok |-> FALSE, err |-> TypeErr("evaluable", C("/", <<A(Name(w)), I(Arity(w))>>))]

-----------------------------------------------------------------------------
\* elementary state transformers (all return a state record)
Silent(s) == [s EXCEPT !.ev = NoEv]
Pop(s) == [Silent(s) EXCEPT !.goals = Tail(s.goals)]
Cont(s, gs) == [Silent(s) EXCEPT !.goals = gs \o Tail(s.goals)]
SetFail(s) == [Silent(s) EXCEPT !.goals = <<Frame(FailA, 0)>>]      \* next step backtracks
Throw(s, ball) == [Silent(s) EXCEPT !.goals = <<Frame(Ctl("throw", ball), 0)>> \o s.goals]
\* the frame below a $throw frame is the current continuation: it is what decides which catch is active

Sto(s) == [Silent(s) EXCEPT !.status = "sto", !.goals = <<>>, !.cps = <<>>, !.ev = [ev |-> "end", kind |-> "sto", out |-> <<>>]]
\* behaviour the properties leave open: the run is not judged from here on
Unspec(s) == [Silent(s) EXCEPT !.status = "unspec", !.goals = <<>>, !.cps = <<>>, !.ev = [ev |-> "end", kind |-> "unspec", out |-> <<>>]]
UnifyStep(s, x, y) == LET u == UnifyS(x, y, s.bind) IN
                      IF u.sto THEN Sto(s) ELSE IF u.ok THEN [Pop(s) EXCEPT !.bind = u.b] ELSE SetFail(s)
TestStep(s, cond) == IF cond THEN Pop(s) ELSE SetFail(s)

\* body conversion (ISO 7.6.2): a variable in goal position of a clause body means call/1 of it
RECURSIVE ConvBody(_)
ConvBody(t) == IF IsVar(t) THEN C("call", <<t>>)
               ELSE IF IsCmp(t) /\ Len(t[3]) = 2 /\ t[2] \in {",", ";", "->"} THEN C(t[2], <<ConvBody(t[3][1]), ConvBody(t[3][2])>>)
               ELSE t

\* resolution of goal g (already walked) against clause c; below = cps under the call's own choice point
Resolvent(s, g, c, rest, b, below) ==
  LET off == Len(b)
      b2 == b \o Fresh(c.nv)
      u == UnifyS(g, Shift(c.head, off), b2)
  IN IF u.sto THEN Sto(s)
     ELSE IF u.ok THEN [Silent(s) EXCEPT !.bind = u.b,
                                    !.goals = <<Frame(Shift(ConvBody(c.body), off), Len(below))>> \o rest]
     ELSE [Silent(s) EXCEPT !.bind = b, !.goals = <<Frame(FailA, 0)>>]

TryClauses(s, g, cls, rest, b, below) ==
  IF cls = <<>> THEN [Silent(s) EXCEPT !.cps = below, !.bind = b, !.goals = <<Frame(FailA, 0)>>]
  ELSE LET cps2 == IF Len(cls) > 1
                   THEN Append(below, [k |-> "cl", g |-> g, alts |-> Tail(cls), rest |-> rest, bind |-> b])
                   ELSE below
           r == Resolvent(s, g, cls[1], rest, b, below)
       IN IF r.status = "sto" THEN r ELSE [r EXCEPT !.cps = cps2]

\* retract: like clause selection, but the selected clause is removed (by identity, once)
RECURSIVE TryRetract(_,_,_,_,_,_)
TryRetract(s, pat, cls, rest, b, below) ==
  IF cls = <<>> THEN [Silent(s) EXCEPT !.cps = below, !.bind = b, !.goals = <<Frame(FailA, 0)>>]
  ELSE LET c == cls[1]
           off == Len(b)
           b2 == b \o Fresh(c.nv)
           u == UnifyS(pat, Shift(RuleTerm(c), off), b2)
           key == Key(c.head)
       IN IF u.sto THEN Sto(s) ELSE IF ~u.ok THEN TryRetract(s, pat, Tail(cls), rest, b, below)
          ELSE LET cps2 == IF Len(cls) > 1
                           THEN Append(below, [k |-> "retract", pat |-> pat, alts |-> Tail(cls), rest |-> rest, bind |-> b])
                           ELSE below
                   db2 == IF HasPred(s.db, key)
                          THEN [s.db EXCEPT ![PredIdx(s.db, key)].cls = SelectSeq(@, LAMBDA d : d.id # c.id)]
                          ELSE s.db
               IN [Silent(s) EXCEPT !.cps = cps2, !.bind = u.b, !.goals = rest, !.db = db2]

\* solutions of a nondeterministic built-in: unify pat with each element of sols in turn
RECURSIVE TrySols(_,_,_,_,_,_)
TrySols(s, pat, sols, rest, b, below) ==
  IF sols = <<>> THEN [Silent(s) EXCEPT !.cps = below, !.bind = b, !.goals = <<Frame(FailA, 0)>>]
  ELSE LET nv == Len(TermVars(sols[1]))
           off == Len(b)
           u == UnifyS(pat, Shift(sols[1], off), b \o Fresh(nv))
       IN IF u.sto THEN Sto(s) ELSE IF ~u.ok THEN TrySols(s, pat, Tail(sols), rest, b, below)
          ELSE LET cps2 == IF Len(sols) > 1
                           THEN Append(below, [k |-> "sols", pat |-> pat, alts |-> Tail(sols), rest |-> rest, bind |-> b])
                           ELSE below
               IN [Silent(s) EXCEPT !.cps = cps2, !.bind = u.b, !.goals = rest]


-----------------------------------------------------------------------------
\* bagof/setof (ISO 8.10.2, 8.10.3, 7.1.1.4)
IsCaret(t) == IsCmp(t) /\ t[2] = "^" /\ Len(t[3]) = 2
RECURSIVE ExVars(_)
ExVars(t) == IF IsCaret(t) THEN TermVars(t[3][1]) \o ExVars(t[3][2]) ELSE <<>>       \* on a resolved term
RECURSIVE IterGoal(_)
IterGoal(t) == IF IsCaret(t) THEN IterGoal(t[3][2]) ELSE t
SeqToSet(q) == { q[i] : i \in 1..Len(q) }
\* free variables of goal with respect to template, in first-occurrence order
FreeVars(goal, templ) == SelectSeq(TermVars(goal), LAMBDA k : k \notin SeqToSet(TermVars(templ)) \cup SeqToSet(ExVars(goal)))
Witness(fv) == IF fv = <<>> THEN A("$w") ELSE C("$w", [i \in 1..Len(fv) |-> V(fv[i])])

\* one group: the elements of S (terms W+T in a common local numbering 1..n) whose witness is a variant of the first one's
GroupOf(S) == SelectSeq(S, LAMBDA e : Variant(e[3][1], S[1][3][1]))
RestOf(S) == SelectSeq(S, LAMBDA e : ~Variant(e[3][1], S[1][3][1]))
\* unify all witnesses of the group with the first one in a local store, then read off witness and instances
GroupSol(G, n, isSet) ==
  LET u == UnifyL([i \in 1..Len(G) |-> <<G[i][3][1], G[1][3][1]>>], Fresh(n), 0)
      w == Resolve(G[1][3][1], u.b)
      ts == [i \in 1..Len(G) |-> Resolve(G[i][3][2], u.b)]
      ts2 == IF isSet THEN SortTerms(ts, TRUE) ELSE ts
      t == C("-", <<w, MkList(ts2)>>)
  IN Renum(t, TermVars(t), 0)
\* over-approximation of "sorting some group needs the order of two distinct variables"
AccDep(S) == \E i, j \in 1..Len(S) : i < j /\ DepL(<< <<S[i][3][2], S[j][3][2]>> >>)
RECURSIVE GroupSols(_,_,_)
GroupSols(S, n, isSet) == IF S = <<>> THEN <<>> ELSE <<GroupSol(GroupOf(S), n, isSet)>> \o GroupSols(RestOf(S), n, isSet)

-----------------------------------------------------------------------------
\* backtracking: pop the top choice point
Backtrack(s) ==
  IF s.cps = <<>> THEN {[Silent(s) EXCEPT !.status = "done", !.goals = <<>>, !.ev = [ev |-> "end", kind |-> "fail", out |-> s.out]]}
  ELSE LET cp == s.cps[Len(s.cps)]
           below == SubSeq(s.cps, 1, Len(s.cps) - 1)
       IN CASE cp.k = "cl" -> {TryClauses(s, cp.g, cp.alts, cp.rest, cp.bind, below)}
            [] cp.k = "retract" -> {TryRetract(s, cp.pat, cp.alts, cp.rest, cp.bind, below)}
            [] cp.k = "sols" -> {TrySols(s, cp.pat, cp.alts, cp.rest, cp.bind, below)}
            [] cp.k = "alt" -> {[Silent(s) EXCEPT !.cps = below, !.bind = cp.bind, !.goals = cp.rest]}
            [] cp.k = "catch" -> {[SetFail(s) EXCEPT !.cps = below]}         \* transparent to backtracking
            [] cp.k = "not" -> {[Silent(s) EXCEPT !.cps = below, !.bind = cp.bind, !.goals = cp.rest]}  \* G failed: \+ G succeeds
            [] cp.k = "bagof" ->
                 IF cp.acc = <<>> THEN {[SetFail(s) EXCEPT !.cps = below]}         \* no solution: bagof fails
                 ELSE {[TrySols(s, C("-", <<cp.witness, cp.inst>>), GroupSols(cp.acc, cp.nacc, cp.isSet), cp.rest, cp.bind, below)
                          EXCEPT !.vardep = s.vardep \/ (cp.isSet /\ AccDep(cp.acc))]}
            [] cp.k = "findall" ->
                 LET u == UnifyS(cp.inst, Shift(MkList(cp.acc), Len(cp.bind)), cp.bind \o Fresh(cp.nacc)) IN
                 {IF u.sto THEN Sto(s) ELSE IF u.ok THEN [Silent(s) EXCEPT !.cps = below, !.bind = u.b, !.goals = cp.rest]
                          ELSE [SetFail(s) EXCEPT !.cps = below, !.bind = cp.bind]}

-----------------------------------------------------------------------------
\* throw: find the innermost ACTIVE catch whose catcher unifies with the ball.
\* A catch marker is active iff its exit frame is still part of the current continuation.
\* Dev_CatchAfterExit: named deviation (known finding F1): an exited catch/3 still intercepts.
ActiveIn(goals, id) == Dev_CatchAfterExit \/ \E i \in 1..Len(goals) : goals[i].g = Ctl("exit_catch", id)
\* The current continuation is the goal stack plus the continuations suspended by the sub-executions in progress
\* (findall/3, bagof/3, setof/3, \+/1 run their goal on a goal stack of its own and keep the rest in their marker).
RECURSIVE SuspendedConts(_)
SuspendedConts(cps) == IF cps = <<>> THEN <<>>
                       ELSE LET cp == cps[Len(cps)] IN
                            (IF cp.k \in {"findall", "bagof", "not"} THEN cp.rest ELSE <<>>) \o SuspendedConts(SubSeq(cps, 1, Len(cps) - 1))

RECURSIVE Unwind(_,_,_,_)
Unwind(s, ball, cont, h) ==       \* h = index in s.cps being inspected (from the top down)
  IF h = 0 THEN [Silent(s) EXCEPT !.status = "error", !.ball = ball, !.goals = <<>>, !.cps = <<>>,
                                  !.ev = [ev |-> "end", kind |-> "error", ball |-> ball, out |-> s.out]]
  ELSE LET cp == s.cps[h] IN
       IF cp.k = "catch" /\ ActiveIn(cont, cp.id)
       THEN LET nv == Len(TermVars(ball))
                off == Len(cp.bind)
                u == UnifyS(cp.catcher, Shift(ball, off), cp.bind \o Fresh(nv))
            IN IF u.sto THEN Sto(s) ELSE IF u.ok THEN [Silent(s) EXCEPT !.cps = SubSeq(s.cps, 1, h - 1), !.bind = u.b,
                                              !.goals = <<Frame(cp.recovery, h - 1)>> \o cp.rest]
               ELSE Unwind(s, ball, cont, h - 1)
       ELSE Unwind(s, ball, cont, h - 1)

-----------------------------------------------------------------------------
\* built-in predicates that are deterministic tests / unifications
CmpOps == {"==", "\\==", "@<", "@>", "@=<", "@>="}
ArithCmp == {"=:=", "=\\=", "<", ">", "=<", ">="}
TypeTests == {"var", "nonvar", "atom", "integer", "atomic", "compound", "callable", "number"}

IsUserKey(s, key) == HasPred(s.db, key)

Control2 == {",", ";", "->"}

\* add n extra arguments to a closure
AddArgs(g, extra) == IF IsAtom(g) THEN C(g[2], extra) ELSE C(g[2], g[3] \o extra)

Step(s) ==
  LET fr == s.goals[1]
      rest == Tail(s.goals)
      cb == fr.cb
      h == Len(s.cps)
  IN
  IF IsCtl(fr.g) THEN
     CASE fr.g[2] = "cut_to" -> {[Pop(s) EXCEPT !.cps = SubSeq(s.cps, 1, fr.g[3])]}
       [] fr.g[2] = "exit_catch" -> {Pop(s)}
       [] fr.g[2] = "not_ok" -> {[SetFail(s) EXCEPT !.cps = SubSeq(s.cps, 1, fr.g[3])]}   \* G succeeded: drop marker and everything above, fail
       [] fr.g[2] = "collect" ->
            LET idx == CHOOSE i \in 1..Len(s.cps) : s.cps[i].k \in {"findall", "bagof"} /\ s.cps[i].id = fr.g[3]
                cp == s.cps[idx]
                r == Resolve(cp.template, s.bind)
                vs == TermVars(r)
                copy == Renum(r, vs, cp.nacc)
            IN {[SetFail(s) EXCEPT !.cps[idx].acc = Append(@, copy), !.cps[idx].nacc = @ + Len(vs)]}
       [] fr.g[2] = "throw" -> {Unwind(s, fr.g[3], rest \o SuspendedConts(s.cps), h)}
  ELSE
  LET g == Walk(fr.g, s.bind) IN
  IF IsVar(g) THEN {Throw(s, InstErr)}
  ELSE IF ~IsCallable(g) THEN {Throw(s, TypeErr("callable", g))}
  ELSE
  LET n == Name(g) ar == Arity(g) a == Args(g) key == <<n, ar>> IN
  CASE key = <<"true", 0>> -> {Pop(s)}
    [] key \in {<<"fail", 0>>, <<"false", 0>>} -> Backtrack(s)
    [] key = <<"!", 0>> -> {[Pop(s) EXCEPT !.cps = SubSeq(s.cps, 1, cb)]}
    [] key = <<",", 2>> -> {Cont(s, <<Frame(a[1], cb), Frame(a[2], cb)>>)}
    [] key = <<";", 2>> ->
         LET l == Walk(a[1], s.bind) IN
         IF IsCmp(l) /\ l[2] = "->" /\ Len(l[3]) = 2
         THEN \* if-then-else: condition is opaque to cut, then/else are transparent
              {[Cont(s, <<Frame(l[3][1], h + 1), Frame(Ctl("cut_to", h), 0), Frame(l[3][2], cb)>>)
                  EXCEPT !.cps = Append(s.cps, [k |-> "alt", rest |-> <<Frame(a[2], cb)>> \o rest, bind |-> s.bind])]}
         ELSE {[Cont(s, <<Frame(a[1], cb)>>)
                  EXCEPT !.cps = Append(s.cps, [k |-> "alt", rest |-> <<Frame(a[2], cb)>> \o rest, bind |-> s.bind])]}
    [] key = <<"->", 2>> -> {Cont(s, <<Frame(a[1], h), Frame(Ctl("cut_to", h), 0), Frame(a[2], cb)>>)}
    [] n = "call" /\ ar >= 1 ->
         LET c == Walk(a[1], s.bind) IN
         IF IsVar(c) THEN {Throw(s, InstErr)}
         ELSE IF ~IsCallable(c) THEN {Throw(s, TypeErr("callable", c))}
         ELSE {Cont(s, <<Frame(IF ar = 1 THEN c ELSE AddArgs(c, SubSeq(a, 2, ar)), h)>>)}
    [] key = <<"once", 1>> -> {Cont(s, <<Frame(C("call", <<a[1]>>), h), Frame(Ctl("cut_to", h), 0)>>)}
    [] key = <<"\\+", 1>> ->
         {[Silent(s) EXCEPT !.cps = Append(s.cps, [k |-> "not", rest |-> rest, bind |-> s.bind]),
                            !.goals = <<Frame(C("call", <<a[1]>>), h + 1), Frame(Ctl("not_ok", h), 0)>>]}
    [] key = <<"findall", 3>> ->
         {[Silent(s) EXCEPT !.cps = Append(s.cps, [k |-> "findall", id |-> s.nid, template |-> a[1], inst |-> a[3],
                                                   acc |-> <<>>, nacc |-> 0, rest |-> rest, bind |-> s.bind]),
                            !.nid = s.nid + 1,
                            !.goals = <<Frame(C("call", <<a[2]>>), h + 1), Frame(Ctl("collect", s.nid), 0)>>]}
    [] key \in {<<"bagof", 3>>, <<"setof", 3>>} ->
         LET gr == Resolve(a[2], s.bind)
             tr == Resolve(a[1], s.bind)
             w == Witness(FreeVars(gr, tr))
             ig == IterGoal(gr)
         IN IF IsVar(ig) THEN {Throw(s, InstErr)}
            ELSE IF ~IsCallable(ig) THEN {Throw(s, TypeErr("callable", ig))}
            ELSE {[Silent(s) EXCEPT !.cps = Append(s.cps, [k |-> "bagof", id |-> s.nid, template |-> C("+", <<w, tr>>), witness |-> w, inst |-> a[3],
                                                            isSet |-> (n = "setof"), acc |-> <<>>, nacc |-> 0, rest |-> rest, bind |-> s.bind]),
                                     !.nid = s.nid + 1,
                                     !.goals = <<Frame(C("call", <<ig>>), h + 1), Frame(Ctl("collect", s.nid), 0)>>]}
    [] key = <<"catch", 3>> ->
         {[Silent(s) EXCEPT !.cps = Append(s.cps, [k |-> "catch", id |-> s.nid, catcher |-> a[2], recovery |-> C("call", <<a[3]>>),
                                                   rest |-> rest, bind |-> s.bind]),
                            !.nid = s.nid + 1,
                            !.goals = <<Frame(C("call", <<a[1]>>), h + 1), Frame(Ctl("exit_catch", s.nid), 0)>> \o rest]}
    [] key = <<"throw", 1>> ->
         LET b == Resolve(a[1], s.bind) IN
         IF IsVar(b) THEN {Throw(s, InstErr)}
         ELSE {Throw(s, Renum(b, TermVars(b), 0))}
    [] key = <<"=", 2>> -> {UnifyStep(s, a[1], a[2])}
    [] key = <<"\\=", 2>> -> LET u == UnifyS(a[1], a[2], s.bind) IN {IF u.sto THEN Sto(s) ELSE TestStep(s, ~u.ok)}
    [] key = <<"unify_with_occurs_check", 2>> ->
         LET u == UnifyOC(a[1], a[2], s.bind) IN {IF u.ok THEN [Pop(s) EXCEPT !.bind = u.b] ELSE SetFail(s)}
    [] ar = 2 /\ n \in CmpOps ->
         LET c == Compare(a[1], a[2], s.bind) IN
         {TestStep(s, CASE n = "==" -> c = 0 [] n = "\\==" -> c # 0 [] n = "@<" -> c < 0
                        [] n = "@>" -> c > 0 [] n = "@=<" -> c <= 0 [] n = "@>=" -> c >= 0)}
    [] key = <<"compare", 3>> ->
         LET c == Compare(a[2], a[3], s.bind) IN
         {UnifyStep(s, a[1], A(IF c < 0 THEN "<" ELSE IF c > 0 THEN ">" ELSE "="))}
    [] ar = 1 /\ n \in TypeTests ->
         LET w == Walk(a[1], s.bind) IN
         {TestStep(s, CASE n = "var" -> IsVar(w) [] n = "nonvar" -> ~IsVar(w) [] n = "atom" -> IsAtom(w)
                        [] n = "integer" -> IsInt(w) [] n = "atomic" -> IsAtomic(w) [] n = "compound" -> IsCmp(w)
                        [] n = "callable" -> IsCallable(w) [] n = "number" -> IsNum(w))}
    [] key = <<"is", 2>> ->
         LET e == Eval(a[2], s.bind) IN {IF e.ok THEN UnifyStep(s, a[1], I(e.v)) ELSE Throw(s, e.err)}
    [] ar = 2 /\ n \in ArithCmp ->
         LET x == Eval(a[1], s.bind) IN
         IF ~x.ok THEN {Throw(s, x.err)} ELSE
         LET y == Eval(a[2], s.bind) IN
         IF ~y.ok THEN {Throw(s, y.err)} ELSE
         {TestStep(s, CASE n = "=:=" -> x.v = y.v [] n = "=\\=" -> x.v # y.v [] n = "<" -> x.v < y.v
                        [] n = ">" -> x.v > y.v [] n = "=<" -> x.v <= y.v [] n = ">=" -> x.v >= y.v)}
    [] key = <<"write", 1>> ->       \* generated programs write atoms (alphanumeric) and small non-negative integers only
         LET w == Walk(a[1], s.bind) IN
         {[Pop(s) EXCEPT !.out = Append(s.out, IF IsAtom(w) THEN w[2] ELSE IF IsInt(w) THEN ToString(w[2])
                                                ELSE Assert(FALSE, <<"write/1 of a term outside the modelled vocabulary", w>>))]}
    [] key = <<"nl", 0>> -> {[Pop(s) EXCEPT !.out = Append(s.out, "\n")]}
    [] key = <<"copy_term", 2>> ->
         LET r == Resolve(a[1], s.bind) vs == TermVars(r) off == Len(s.bind)
             u == UnifyS(a[2], Renum(r, vs, off), s.bind \o Fresh(Len(vs)))
         IN {IF u.sto THEN Sto(s) ELSE IF u.ok THEN [Pop(s) EXCEPT !.bind = u.b] ELSE SetFail(s)}
    [] key = <<"between", 3>> ->
         LET lo == Walk(a[1], s.bind) hi == Walk(a[2], s.bind) x == Walk(a[3], s.bind) IN
         IF IsVar(lo) \/ IsVar(hi) THEN {Throw(s, InstErr)}
         ELSE IF IsInt(x) THEN {TestStep(s, lo[2] <= x[2] /\ x[2] <= hi[2])}
         ELSE {TrySols(s, x, [i \in 1..(IF hi[2] >= lo[2] THEN hi[2] - lo[2] + 1 ELSE 0) |-> I(lo[2] + i - 1)], rest, s.bind, s.cps)}
    [] key \in {<<"assertz", 1>>, <<"asserta", 1>>} ->
         LET t == Resolve(a[1], s.bind)
             sc == SplitClause(t)
         IN IF IsVar(t) \/ IsVar(sc.head) THEN {Throw(s, InstErr)}
            ELSE IF ~IsCallable(sc.head) THEN {Throw(s, TypeErr("callable", sc.head))}
            ELSE LET k == Key(sc.head)
                     c == MkClause(t, s.bind, s.nid)
                 IN IF HasPred(s.db, k) /\ ~Pred(s.db, k).dyn THEN {Throw(s, PermModStatic(k))}
                    ELSE LET db1 == IF HasPred(s.db, k) THEN s.db ELSE Append(s.db, [key |-> k, dyn |-> TRUE, cls |-> <<>>])
                             i == PredIdx(db1, k)
                             db2 == [db1 EXCEPT ![i].cls = IF n = "assertz" THEN Append(@, c) ELSE <<c>> \o @]
                         IN {[Pop(s) EXCEPT !.db = db2, !.nid = s.nid + 1]}
    [] key = <<"retract", 1>> ->
         LET t == Resolve(a[1], s.bind)
             sc == SplitClause(t)
             pat == C(":-", <<sc.head, sc.body>>)
         IN IF IsVar(sc.head) THEN {Throw(s, InstErr)}
            ELSE LET k == Key(sc.head) IN
                 IF ~HasPred(s.db, k) THEN {SetFail(s)}
                 ELSE IF ~Pred(s.db, k).dyn THEN {Throw(s, PermModStatic(k))}
                 ELSE {TryRetract(s, pat, Pred(s.db, k).cls, rest, s.bind, s.cps)}
    [] key = <<"retractall", 1>> ->
         \* removes every clause of the (dynamic) procedure whose head unifies with the argument; no binding is kept
         LET hd == Walk(a[1], s.bind) IN
         IF IsVar(hd) THEN {Throw(s, InstErr)}
         ELSE IF ~IsCallable(hd) THEN {Throw(s, TypeErr("callable", hd))}
         ELSE LET k == Key(hd) IN
              IF ~HasPred(s.db, k) THEN {Unspec(s)}     \* ISO creates the procedure, the implementation does not, the property is silent
              ELSE IF ~Pred(s.db, k).dyn THEN {Throw(s, PermModStatic(k))}
              ELSE {[Pop(s) EXCEPT !.db[PredIdx(s.db, k)].cls =
                       SelectSeq(@, LAMBDA c : ~Unify(hd, Shift(c.head, Len(s.bind)), s.bind \o Fresh(c.nv)).ok)]}
    [] key = <<"abolish", 1>> ->
         LET pi == Resolve(a[1], s.bind) IN
         IF IsVar(pi) THEN {Throw(s, InstErr)}
         ELSE IF ~(IsCmp(pi) /\ pi[2] = "/" /\ Len(pi[3]) = 2) THEN {Throw(s, TypeErr("predicate_indicator", pi))}
         ELSE IF IsVar(pi[3][1]) \/ IsVar(pi[3][2]) THEN {Throw(s, InstErr)}
         ELSE LET k == <<pi[3][1][2], pi[3][2][2]>> IN
              IF ~HasPred(s.db, k) THEN {Unspec(s)}     \* ISO: succeeds; the implementation raises permission_error; the properties are silent
              ELSE IF ~Pred(s.db, k).dyn THEN {Throw(s, PermModStatic(k))}
              ELSE {[Pop(s) EXCEPT !.db = SelectSeq(s.db, LAMBDA p : p.key # k)]}
    [] key = <<"clause", 2>> ->
         LET hd == Walk(a[1], s.bind) IN
         IF IsVar(hd) THEN {Throw(s, InstErr)}
         ELSE LET k == Key(hd) IN
              IF ~HasPred(s.db, k) THEN {SetFail(s)}
              ELSE IF ~Pred(s.db, k).dyn THEN {Throw(s, PermAccessPrivate(k))}
              ELSE {TrySols(s, C(":-", <<a[1], a[2]>>), [i \in 1..Len(Pred(s.db, k).cls) |-> RuleTerm(Pred(s.db, k).cls[i])],
                            rest, s.bind, s.cps)}
    [] HasPred(s.db, key) ->
         \* observable: the call port of a user predicate. The clause sequence is snapshot here (logical update view).
         {LET t == TryClauses(s, g, Pred(s.db, key).cls, rest, s.bind, s.cps) IN
          IF t.status = "sto" THEN t
          ELSE [t EXCEPT !.ev = [ev |-> "call", goal |-> Canon(g, s.bind), out |-> s.out], !.out = <<>>]}
    [] OTHER ->
         \* unknown procedure (flag unknown = error). The call port is observable iff the procedure belonged to the
         \* program text (it may have been abolished meanwhile): that is the set the recorder filters by.
         {IF key \in s.ukeys
          THEN [Throw(s, ExistProc(key)) EXCEPT !.ev = [ev |-> "call", goal |-> Canon(g, s.bind), out |-> s.out], !.out = <<>>]
          ELSE Throw(s, ExistProc(key))}

\* after an answer the consumer either asks for more (backtrack) or closes
Steps(s) ==
  CASE s.status = "run" /\ s.goals = <<>> ->
         {[Silent(s) EXCEPT !.status = "answer", !.out = <<>>,
                            !.ev = [ev |-> "ans", b |-> Canon(C("$", [i \in 1..s.qv |-> V(i)]), s.bind)[3], out |-> s.out]]}
    [] s.status = "run" -> Step(s)
    [] s.status = "answer" ->
         { [SetFail(s) EXCEPT !.status = "run"],
           [Silent(s) EXCEPT !.status = "closed", !.ev = [ev |-> "end", kind |-> "closed", out |-> <<>>]] }
    [] OTHER -> {}

Terminal(s) == s.status \in {"done", "error", "closed", "sto", "unspec"}
Judged(s) == s.status \in {"done", "error", "closed"}     \* terminal states whose behaviour the properties determine

\* the query's variables are store slots 1..n; the first qv of them are reported in answers
InitStateX(db, query, qv, n) ==
  [goals |-> <<Frame(C("call", <<query>>), 0)>>, bind |-> Fresh(n), cps |-> <<>>, db |-> db, out |-> <<>>,
   nid |-> 1000, status |-> "run", ball |-> TrueA, ev |-> NoEv, qv |-> qv, vardep |-> FALSE,
   ukeys |-> { db[i].key : i \in 1..Len(db) }]
InitState(db, query, qv) == InitStateX(db, query, qv, qv)
=============================================================================
