------------------------------- MODULE GenCut -------------------------------
(* C03 (and C01): exhaustive control skeletons. The program is                               *)
(*     g(a). g(b).   w(_).   q(X) :- g(X), !.   q(c).                                         *)
(*     p(X) :- B1.   p(X) :- B2.   p(z).                                                      *)
(* with B1, B2 conjunctions over Alphabet (or one top-level disjunction of two such           *)
(* conjunctions), and is queried in every calling context of Contexts: bare, and with older   *)
(* choice points / frames below the call, because "nothing older is discarded" can only be    *)
(* observed when something older exists.                                                      *)
(* Cut only occurs where the property admits it: as a direct conjunct of a clause body or of  *)
(* one of its top-level disjuncts, or wrapped in call/1.                                      *)
EXTENDS Engine, Json

G(t) == C("g", <<t>>)
X == V(1)
Alphabet == { G(X), A("!"), A("fail"), C("q", <<X>>), C("call", <<A("!")>>), C("call", <<C(",", <<G(X), A("!")>>)>>),
              C("\\+", <<G(X)>>), C("once", <<G(X)>>), C(";", <<C("->", <<G(X), A("true")>>), C("w", <<A("e")>>)>>),
              C(";", <<G(X), C("=", <<X, A("d")>>)>>), C("w", <<X>>),
              C("->", <<G(X), C("w", <<X>>)>>) }                                 \* if-then WITHOUT else: commits to the condition's first answer, cuts nothing else
\* the goals that cut, commit or leave choice points: longer bodies are enumerated over this sub-alphabet
CutAlphabet == { G(X), A("!"), C("q", <<X>>), C("once", <<G(X)>>), C(";", <<C("->", <<G(X), A("true")>>), C("w", <<A("e")>>)>>), C("->", <<G(X), A("true")>>),
                 C("call", <<C(",", <<G(X), A("!")>>)>>) }
\* a cut inside call/N, \+, findall, bagof, catch or a goal bound at run time is local to that goal, wherever it stands in the inner
\* conjunction (left-nested, in the middle, last); Y is a second clause variable
Y == V(2)
GC == C(",", <<G(X), A("!")>>)
OpaqueAlphabet == { C("call", <<C(",", <<GC, C("w", <<X>>)>>)>>),                                   \* call(((g(X), !), w(X)))
                    C("call", <<C(",", <<G(X), C(",", <<A("!"), C("w", <<X>>)>>)>>)>>),            \* call((g(X), !, w(X)))
                    C("call", <<A("call"), GC>>),                                                    \* call(call, (g(X), !))
                    C("\\+", <<C(",", <<G(X), C(",", <<A("!"), A("fail")>>)>>)>>),                  \* \+ (g(X), !, fail)
                    C("findall", <<X, GC, Cons(A("a"), Nil)>>),                                      \* findall(X, (g(X), !), [a])
                    C("bagof", <<X, C(",", <<GC, A("true")>>), Cons(A("a"), Nil)>>),                 \* bagof(X, ((g(X), !), true), [a])
                    C("catch", <<GC, A("e"), A("true")>>),                                           \* catch((g(X), !), e, true)
                    C(",", <<C("=", <<Y, GC>>), Y>>),                                                \* Y = (g(X), !), Y
                    C(",", <<C("=", <<Y, C(",", <<GC, A("true")>>)>>), C("call", <<Y>>)>>),          \* Y = ((g(X), !), true), call(Y)
                    G(X), A("!"), C("w", <<X>>) }
\* "deep": a deterministic goal between the call of a committing construct and its cut. For the specification deep/0 is a fact;
\* the replayer (option deep) loads it as a recursion 2 500 levels deep, so that the cut happens far above the choice points and
\* frames it must keep (an implementation that trims or compacts its stacks must not lose the cut's barrier)
Deep == A("deep")
DeepAlphabet == { G(X), A("!"), C("w", <<X>>), C("once", <<Deep>>), C("->", <<Deep, C("w", <<X>>)>>), C("call", <<C(",", <<Deep, A("!")>>)>>),
                  C("\\+", <<C("\\+", <<Deep>>)>>), C("once", <<C(",", <<G(X), Deep>>)>>), C(",", <<Deep, A("!")>>) }
RECURSIVE Conj(_)
Conj(s) == IF Len(s) = 0 THEN A("true") ELSE IF Len(s) = 1 THEN s[1] ELSE C(",", <<s[1], Conj(Tail(s))>>)

CONSTANTS N1,       \* maximal length of the first clause body
          N2,       \* maximal length of the second clause body
          ND,       \* maximal length of each branch of a top-level disjunctive first body (0: none)
          NCTX,     \* number of calling contexts used (1..8)
          ALPHA     \* "full" | "cuts" | "opaque": the alphabet of body goals
Seqs(n) == UNION { [1..k -> (IF ALPHA = "full" THEN Alphabet ELSE IF ALPHA = "cuts" THEN CutAlphabet ELSE IF ALPHA = "deep" THEN DeepAlphabet ELSE OpaqueAlphabet)] : k \in 0..n }

Bodies1 == { Conj(s) : s \in Seqs(N1) } \cup
           (IF ND = 0 THEN {} ELSE { C(";", <<Conj(s), Conj(t)>>) : s \in Seqs(ND) \ {<<>>}, t \in Seqs(ND) \ {<<>>} })
Bodies2 == { Conj(s) : s \in Seqs(N2) }

FixedDb == << [key |-> <<"g", 1>>, dyn |-> FALSE, cls |-> << [id |-> 1, head |-> G(A("a")), body |-> TrueA, nv |-> 0],
                                                          [id |-> 2, head |-> G(A("b")), body |-> TrueA, nv |-> 0] >>],
              [key |-> <<"w", 1>>, dyn |-> FALSE, cls |-> << [id |-> 3, head |-> C("w", <<V(1)>>), body |-> TrueA, nv |-> 1] >>],
              [key |-> <<"deep", 0>>, dyn |-> FALSE, cls |-> << [id |-> 9, head |-> A("deep"), body |-> TrueA, nv |-> 0] >>],
              [key |-> <<"q", 1>>, dyn |-> FALSE, cls |-> << [id |-> 4, head |-> C("q", <<V(1)>>), body |-> C(",", <<G(V(1)), A("!")>>), nv |-> 1],
                                                          [id |-> 5, head |-> C("q", <<A("c")>>), body |-> TrueA, nv |-> 0] >>] >>

PDb(b1, b2) == FixedDb \o << [key |-> <<"p", 1>>, dyn |-> FALSE,
                              cls |-> << [id |-> 6, head |-> C("p", <<V(1)>>), body |-> b1, nv |-> 2],
                                         [id |-> 7, head |-> C("p", <<V(1)>>), body |-> b2, nv |-> 2],
                                         [id |-> 8, head |-> C("p", <<A("z")>>), body |-> TrueA, nv |-> 0] >>] >>

P == C("p", <<V(1)>>)
Contexts == << P,
               C(",", <<G(V(2)), P>>),
               C("findall", <<V(1), P, V(3)>>),
               C(",", <<C("catch", <<P, V(3), A("true")>>), G(V(2))>>),
               C(",", <<P, G(V(2))>>),
               C("call", <<P>>),
               C("\\+", <<C("\\+", <<P>>)>>),
               C(",", <<C("q", <<V(2)>>), P>>) >>

VARIABLES st, hist, b1, b2, ctx
gvars == <<st, hist, b1, b2, ctx>>

GInit == /\ b1 \in Bodies1 /\ b2 \in Bodies2 /\ ctx \in 1..NCTX
         /\ st = InitState(PDb(b1, b2), Contexts[ctx], 3)
         /\ hist = <<>>

GNext == /\ ~Terminal(st)
         /\ \E t \in Steps(st) : /\ ~(st.status = "answer" /\ t.status = "closed")    \* the generator never closes early
                                 /\ st' = t
                                 /\ hist' = IF t.ev # NoEv THEN Append(hist, t.ev) ELSE hist
         /\ UNCHANGED <<b1, b2, ctx>>

GSpec == GInit /\ [][GNext]_gvars

Emit == Judged(st) => PrintT("CASE " \o ToJson([db |-> PDb(b1, b2), query |-> Contexts[ctx], qv |-> 3, events |-> hist]))
Bound == Len(hist) < 80 /\ Len(st.bind) < 300

\* --- properties of the machine checked on every state of every skeleton (U1) ---
\* a frame's cut barrier never exceeds the current height of the choice-point stack
BarrierOK == \A i \in 1..Len(st.goals) : st.goals[i].cb <= Len(st.cps)
\* CutExact: executing a cut truncates the choice-point stack to the frame's barrier and continues with the rest
IsCutState(s) == s.status = "run" /\ s.goals # <<>> /\ ~IsCtl(s.goals[1].g) /\ Walk(s.goals[1].g, s.bind) = A("!")
CutExact == [][IsCutState(st) => /\ st'.cps = SubSeq(st.cps, 1, st.goals[1].cb)
                                 /\ st'.goals = Tail(st.goals)
                                 /\ st'.bind = st.bind]_gvars
=============================================================================
