SPECIFICATION WSpec
CONSTANT D = 0
INVARIANT WInv
INVARIANT WEmit
CHECK_DEADLOCK FALSE
