SPECIFICATION Spec
CONSTANTS PREDSET = {@PREDS@}
          NA = @NA@
          NL = @NL@
INVARIANT Emit
INVARIANT SubsetLaw
INVARIANT ConcatLength
INVARIANT SubAtomSum
INVARIANT NthShift
CHECK_DEADLOCK FALSE
