SPECIFICATION Spec
CONSTANT PREDSET = {@PREDS@}
INVARIANT Emit
INVARIANT SubsetLaw
INVARIANT ConcatLength
INVARIANT SubAtomSum
INVARIANT NthShift
CHECK_DEADLOCK FALSE
