------------------------------- MODULE Loader -------------------------------
(* C20: loading Prolog texts. A text is a sequence of items: a clause of p/1 or q/1, a         *)
(* dynamic / discontiguous / multifile declaration of p/1, an initialization goal, a plain     *)
(* directive (both write their item id, which makes the order of execution observable), a      *)
(* syntax fault or a non-callable clause. Loading stages the text and commits at its end:      *)
(*   Stage   - one item is consumed: a clause joins the current run (a maximal block of        *)
(*             consecutive clauses of one predicate); a directive ends the run and is executed *)
(*             at once; a declaration marks the STAGED entry; a fault aborts the load.         *)
(*   Commit  - at the end of the text the staged definitions replace the live ones, or are     *)
(*             appended when both are multifile; then the initialization goals run.            *)
(* The texts t[1..NT] are loaded one after the other on the same database; obs[i] is what a    *)
(* program can observe after load i (result class, output, clause lists by calling).           *)
EXTENDS Integers, Sequences, FiniteSets, TLC, Json

Preds == {"p", "q"}
CONSTANT PAIR         \* TRUE: the sub-space of texts whose declarations name BOTH predicates in one directive (a list or a comma sequence)
Items == IF PAIR THEN { <<"cl", pr>> : pr \in Preds } \cup { <<"dyn", "pq">>, <<"disc", "pq">>, <<"multi", "pq">>, <<"dir">> }
         ELSE { <<"cl", pr>> : pr \in Preds } \cup { <<"dyn", "p">>, <<"disc", "p">>, <<"multi", "p">>, <<"init">>, <<"dir">>, <<"syntax">>, <<"noncallable">> }
Targets(x) == IF x = "pq" THEN Preds ELSE {x}

NoPred == [def |-> FALSE, cls |-> <<>>, dyn |-> FALSE, multi |-> FALSE, disc |-> FALSE]
EmptyDb == [pr \in Preds |-> NoPred]
NoRun == [pred |-> "p", ids |-> <<>>]

\* the end of a run: its clauses are added to the staged entry; a second run for the same predicate needs discontiguous
Flush(st, run) ==
  IF run.ids = <<>> THEN [ok |-> TRUE, st |-> st]
  ELSE LET e == st[run.pred] IN
       IF e.cls # <<>> /\ ~e.disc THEN [ok |-> FALSE, st |-> st]
       ELSE [ok |-> TRUE, st |-> [st EXCEPT ![run.pred] = [e EXCEPT !.def = TRUE, !.cls = e.cls \o run.ids]]]

CommitDb(lv, st) == [pr \in Preds |->
                       IF ~st[pr].def THEN lv[pr]
                       ELSE IF lv[pr].def /\ lv[pr].multi /\ st[pr].multi THEN [lv[pr] EXCEPT !.cls = lv[pr].cls \o st[pr].cls]
                       ELSE st[pr]]

CONSTANTS NT,           \* number of texts loaded one after the other
          N1, N2, N3    \* maximal number of items of text 1, 2, 3 (texts after the first are non-empty)
MaxLen(i) == IF i = 1 THEN N1 ELSE IF i = 2 THEN N2 ELSE N3
Texts(i) == UNION { [1..k -> Items] : k \in (IF i = 1 THEN 0 ELSE 1)..MaxLen(i) }

VARIABLES t,            \* the texts
          ti, k,        \* text being loaded, next item
          live,         \* the live database
          start,        \* the live database when the current load started
          st, run, goals, out,    \* staged definitions, current run, pending initialization goals, output of this load
          phase,        \* "stage" | "failed" | "done"
          obs           \* observations after each finished load
vars == <<t, ti, k, live, start, st, run, goals, out, phase, obs>>

\* long texts (NT = 0 selects them): runs of 3 to 7 clauses followed by another predicate and by a later addition to the first one
\* (a second run under discontiguous, a second load of a multifile predicate, a replacing load) - a staging area that reuses or
\* shares storage between predicates only shows with runs of some length
Cp == <<"cl", "p">>
Cq == <<"cl", "q">>
Rep(x, n) == [i \in 1..n |-> x]
LongPairs == { << <<<<"disc", "p">>>> \o Rep(Cp, n) \o <<Cq>> \o Rep(Cp, m), <<Cq>> >> : n \in {3, 5, 6}, m \in {1, 2} }
        \cup { << <<<<"multi", "p">>>> \o Rep(Cp, n) \o <<Cq>>, <<<<"multi", "p">>>> \o Rep(Cp, m) >> : n \in {3, 5, 7}, m \in {1, 2} }
        \cup { << Rep(Cp, n) \o Rep(Cq, 2), Rep(Cp, m) \o <<Cq>> >> : n \in {3, 5}, m \in {1, 3} }
        \cup { << <<<<"dyn", "p">>>> \o Rep(Cp, 3) \o <<Cq, <<"dir">>>> \o Rep(Cq, 1), <<<<"multi", "p">>, Cp>> >>,
                << Rep(Cp, 3) \o <<Cq>> \o Rep(Cp, 1), <<Cp>> >> }            \* (the last one: p/1 is discontiguous without a declaration - the load fails)
AllTexts == IF NT = 0 THEN LongPairs
            ELSE IF NT = 1 THEN { <<a>> : a \in Texts(1) }
            ELSE IF NT = 2 THEN { <<a, b>> : a \in Texts(1), b \in Texts(2) }
            ELSE { <<a, b, c>> : a \in Texts(1), b \in Texts(2), c \in Texts(3) }
Init == /\ t \in AllTexts
        /\ ti = 1 /\ k = 1 /\ live = EmptyDb /\ start = EmptyDb /\ st = EmptyDb /\ run = NoRun /\ goals = <<>> /\ out = <<>>
        /\ phase = "stage" /\ obs = <<>>

Id == ti * 100 + k
Observe(err, lv, o) == [err |-> err, out |-> o, p |-> [def |-> lv["p"].def, cls |-> lv["p"].cls], q |-> [def |-> lv["q"].def, cls |-> lv["q"].cls],
                        pdyn |-> lv["p"].dyn \/ ~lv["p"].def]
Fail(err) == /\ phase' = "failed" /\ obs' = Append(obs, Observe(err, live, out))
             /\ UNCHANGED <<t, ti, k, live, start, st, run, goals, out>>

Stage == /\ phase = "stage" /\ k <= Len(t[ti])
         /\ LET it == t[ti][k] IN
            CASE it[1] = "cl" ->
                   IF run.ids # <<>> /\ run.pred # it[2]
                   THEN LET f == Flush(st, run) IN
                        IF ~f.ok THEN Fail("discontiguous")
                        ELSE /\ st' = f.st /\ run' = [pred |-> it[2], ids |-> <<Id>>] /\ k' = k + 1
                             /\ UNCHANGED <<t, ti, live, start, goals, out, phase, obs>>
                   ELSE /\ run' = [pred |-> it[2], ids |-> Append(run.ids, Id)] /\ k' = k + 1
                        /\ UNCHANGED <<t, ti, live, start, st, goals, out, phase, obs>>
              [] it[1] \in {"dyn", "disc", "multi", "init", "dir"} ->
                   LET f == Flush(st, run) IN
                   IF ~f.ok THEN Fail("discontiguous")
                   ELSE /\ run' = NoRun /\ k' = k + 1
                        /\ st' = (CASE it[1] = "dyn" -> [pr \in Preds |-> IF pr \in Targets(it[2]) THEN [f.st[pr] EXCEPT !.def = TRUE, !.dyn = TRUE] ELSE f.st[pr]]
                                    [] it[1] = "disc" -> [pr \in Preds |-> IF pr \in Targets(it[2]) THEN [f.st[pr] EXCEPT !.def = TRUE, !.disc = TRUE] ELSE f.st[pr]]
                                    [] it[1] = "multi" -> [pr \in Preds |-> IF pr \in Targets(it[2]) THEN [f.st[pr] EXCEPT !.def = TRUE, !.multi = TRUE] ELSE f.st[pr]]
                                    [] OTHER -> f.st)
                        /\ goals' = (IF it[1] = "init" THEN Append(goals, Id) ELSE goals)
                        /\ out' = (IF it[1] = "dir" THEN Append(out, Id) ELSE out)       \* a directive runs at its position
                        /\ UNCHANGED <<t, ti, live, start, phase, obs>>
              [] it[1] = "syntax" -> Fail("syntax")
              [] it[1] = "noncallable" -> Fail("type")

Commit == /\ phase = "stage" /\ k > Len(t[ti])
          /\ LET f == Flush(st, run) IN
             IF ~f.ok THEN Fail("discontiguous")
             ELSE /\ live' = CommitDb(live, f.st)
                  /\ out' = out \o goals                       \* initialization goals run after the text is loaded
                  /\ phase' = "done"
                  /\ obs' = Append(obs, Observe("none", live', out'))
                  /\ UNCHANGED <<t, ti, k, start, st, run, goals>>

NextText == /\ phase \in {"done", "failed"} /\ ti < Len(t)
            /\ ti' = ti + 1 /\ k' = 1 /\ start' = live /\ st' = EmptyDb /\ run' = NoRun /\ goals' = <<>> /\ out' = <<>> /\ phase' = "stage"
            /\ UNCHANGED <<t, live, obs>>

Next == Stage \/ Commit \/ NextText
Spec == Init /\ [][Next]_vars

\* --- properties ---
\* nothing of a text is visible before its commit; a failed load leaves every definition exactly as it was
Invisible == phase \in {"stage", "failed"} => live = start
AllOrNothing == [][phase' = "failed" => live' = start]_vars
\* a committed predicate holds the text's clauses for it in source order (ids ascend within a text)
SourceOrder == \A pr \in Preds : \A i, j \in 1..Len(live[pr].cls) :
                 (i < j /\ live[pr].cls[i] \div 100 = live[pr].cls[j] \div 100) => live[pr].cls[i] < live[pr].cls[j]
\* clauses of different texts coexist in one predicate only if it is multifile
ReplaceUnlessMultifile == \A pr \in Preds : (\E i, j \in 1..Len(live[pr].cls) : live[pr].cls[i] \div 100 # live[pr].cls[j] \div 100) => live[pr].multi
\* directives are executed in place (before the commit), initialization goals after it
DirectivesInPlace == [][out' # out /\ phase' = "stage" /\ ti' = ti => \E d \in 1..999 : out' = Append(out, d) /\ t[ti][d % 100] = <<"dir">>]_vars

Terminal == phase \in {"done", "failed"} /\ ti = Len(t)
Emit == Terminal => PrintT("CASE " \o ToJson([t |-> t, obs |-> obs]))
=============================================================================
