------------------------------ MODULE TermsMC ------------------------------
(* U1 for C02/C08: algebraic laws of Terms.Unify / Terms.Compare by brute force in a bounded universe:   *)
(* soundness, completeness and most-generality against EVERY substitution of the universe, idempotence, *)
(* symmetry, failure keeps the store, agreement with the occurs-check variant; order laws.             *)
EXTENDS Terms

NV == 2
Vars == { V(k) : k \in 1..NV }
Atoms0 == { A("a"), A("b"), I(1) }
T0 == Vars \cup Atoms0
T1 == T0 \cup { C("f", <<x>>) : x \in T0 } \cup { C("g", <<x, y>>) : x \in T0, y \in T0 }
\* substitutions: every mapping of the NV variables to terms of depth <= 1 (T1), given as a store over NV + 0 extra slots.
\* A store may bind a variable to a term containing variables: apply until fixpoint is not needed for idempotent ones,
\* so the bounded universe of "other unifiers" is restricted to substitutions whose range is ground or a variable.
Ground1 == { t \in T1 : TermVars(t) = <<>> }
Sigmas == [1..NV -> Ground1 \cup {U}]          \* U = leave unbound

Apply(t, sg) == Resolve(t, sg)

Sound(x, y) == LET u == UnifyM(x, y, Fresh(NV), 0) IN u.ok => Resolve(x, u.b) = Resolve(y, u.b)
Complete(x, y) == (\E sg \in Sigmas : Apply(x, sg) = Apply(y, sg)) => UnifyM(x, y, Fresh(NV), 0).ok
\* most general: every bounded unifier sg factors through theta: sg(theta(t)) = sg(t) for all variables
MostGeneral(x, y) == LET u == UnifyM(x, y, Fresh(NV), 0) IN
                     u.ok => \A sg \in Sigmas : (Apply(x, sg) = Apply(y, sg)) =>
                                \A k \in 1..NV : Apply(Resolve(V(k), u.b), sg) = Apply(V(k), sg)
Idempotent(x, y) == LET u == UnifyM(x, y, Fresh(NV), 0) IN
                    u.ok => \A k \in 1..NV : Resolve(Resolve(V(k), u.b), u.b) = Resolve(V(k), u.b)
Symmetric(x, y) == LET u == UnifyM(x, y, Fresh(NV), 0) w == Unify(y, x, Fresh(NV)) IN
                   /\ u.ok = w.ok
                   /\ (u.ok => Variant(C("$", [k \in 1..NV |-> Resolve(V(k), u.b)]), C("$", [k \in 1..NV |-> Resolve(V(k), w.b)])))
FailureKeeps(x, y) == LET u == UnifyM(x, y, Fresh(NV), 0) IN ~u.ok => u.b = Fresh(NV)
\* occurs check: agrees with Unify when the result is finite (acyclic), fails otherwise
RECURSIVE Acyclic(_,_,_)
Acyclic(t, b, seen) == LET w == Walk(t, b) IN
                       IF IsVar(w) THEN TRUE
                       ELSE IF IsCmp(w) THEN \A i \in 1..Len(w[3]) : LET a == w[3][i] IN
                                               IF IsVar(a) /\ b[a[2]] # U THEN (a[2] \notin seen /\ Acyclic(a, b, seen \cup {a[2]}))
                                               ELSE Acyclic(a, b, seen)
                       ELSE TRUE
OC(x, y) == LET u == UnifyM(x, y, Fresh(NV), 0) w == UnifyOC(x, y, Fresh(NV)) IN
            IF u.ok /\ \A k \in 1..NV : Acyclic(V(k), u.b, {k}) THEN w.ok /\ w.b = u.b ELSE ~w.ok

\* standard order: total, antisymmetric, transitive, '=' iff identical (on resolved terms; variables ordered by index)
Cmp(x, y) == Compare(x, y, Fresh(NV))
OrderLaws(x, y, z) == /\ Cmp(x, y) = -Cmp(y, x)
                      /\ (Cmp(x, y) = 0 <=> x = y)
                      /\ (Cmp(x, y) <= 0 /\ Cmp(y, z) <= 0 => Cmp(x, z) <= 0)

VARIABLES x, y, done
Init == x \in T1 /\ y \in T1 /\ done = FALSE
Next == ~done /\ done' = TRUE /\ UNCHANGED <<x, y>>
Spec == Init /\ [][Next]_<<x, y, done>>
\* pairs "subject to occurs check" (ISO 7.3.3): =/2 is undefined there, only the occurs-check law applies
STO(a, b) == LET u == Unify(a, b, Fresh(NV)) IN u.ok /\ ~(\A k \in 1..NV : Acyclic(V(k), u.b, {k}))
Laws == /\ OC(x, y)
        /\ (~STO(x, y) /\ ~STO(y, x)) => (Sound(x, y) /\ Complete(x, y) /\ MostGeneral(x, y) /\ Idempotent(x, y) /\ Symmetric(x, y) /\ FailureKeeps(x, y))
Order == \A z \in T0 \cup { C("f", <<A("a")>>), C("g", <<A("a"), V(1)>>) } : OrderLaws(x, y, z)
=============================================================================
