-------------------------------- MODULE Flags --------------------------------
(* The Prolog flags of one interpreter as a state machine (ISO 13211-1 7.11, 8.17). Not one of the listed properties by      *)
(* itself: it grows the specification over per-interpreter state that C14 (isolation) and C05 (errors are ISO terms) touch,   *)
(* and binds it to the code in the same way as the operator table (C18).                                                     *)
(*   state    the value of every changeable flag                                                                            *)
(*   Set(f,v) set_prolog_flag(F, V) for every kind of argument: it succeeds iff F is a changeable flag and V one of its     *)
(*            values, and then exactly that flag changes; otherwise the outcome is one of the errors ISO 8.17.1.3 lists     *)
(*            that APPLY to the call (where several apply - an unbound value for a read-only flag - ISO fixes no order:     *)
(*            any of them is allowed) and the state does not change.                                                        *)
(*   Observe  what a program sees afterwards: the full enumeration current_prolog_flag(F, V), and the EFFECT of the flags   *)
(*            that have one here: unknown (calling an undefined procedure raises / fails) and double_quotes (what "ab" is). *)
(* TLC explores the whole machine (every state x every call: TypeOK, FailedUnchanged, OnlyThatFlag) and its simulator        *)
(* produces random histories; the replayer performs them on a real interpreter and compares outcome class and observation   *)
(* after every call.                                                                                                        *)
EXTENDS Integers, Sequences, TLC, Json
Changeable == {"char_conversion", "debug", "unknown", "double_quotes"}
ReadOnly == {"bounded", "max_integer", "min_integer", "integer_rounding_function", "max_arity"}
Values(f) == CASE f \in {"char_conversion", "debug"} -> {"on", "off"}
               [] f = "unknown" -> {"error", "fail", "warning"}
               [] f = "double_quotes" -> {"codes", "chars", "atom"}
               [] OTHER -> {}
InitFlags == [char_conversion |-> "off", debug |-> "off", unknown |-> "error", double_quotes |-> "chars"]     \* (7.11: the defaults are implementation defined)
\* arguments of a call: <<"var">>, <<"atom", name>>, <<"int">>, <<"cmp">>
FlagArgs == { <<"var">>, <<"int">>, <<"cmp">> } \cup { <<"atom", n>> : n \in Changeable \cup ReadOnly \cup {"bogus"} }
ValArgs == { <<"var">>, <<"int">>, <<"cmp">> } \cup { <<"atom", n>> : n \in {"on", "off", "error", "fail", "warning", "codes", "chars", "atom", "bogus"} }
IsAtom(a) == a[1] = "atom"
\* the errors of 8.17.1.3 that apply to the call
Errors(f, v) ==
  (IF f = <<"var">> \/ v = <<"var">> THEN {"instantiation_error"} ELSE {})
  \cup (IF f[1] \in {"int", "cmp"} THEN {"type_error(atom)"} ELSE {})
  \cup (IF IsAtom(f) /\ f[2] \notin Changeable \cup ReadOnly THEN {"domain_error(prolog_flag)"} ELSE {})
  \cup (IF IsAtom(f) /\ f[2] \in Changeable \cup ReadOnly /\ v # <<"var">> /\ ~(IsAtom(v) /\ v[2] \in Values(f[2])) THEN {"domain_error(flag_value)"} ELSE {})
  \cup (IF IsAtom(f) /\ f[2] \in ReadOnly THEN {"permission_error(modify,flag)"} ELSE {})
Allowed(f, v) == IF Errors(f, v) = {} THEN {"ok"} ELSE Errors(f, v)
Apply(st, f, v) == IF Errors(f, v) = {} THEN [st EXCEPT ![f[2]] = v[2]] ELSE st
\* current_prolog_flag(F, V) for every kind of first argument (8.17.2.3): an unbound F enumerates, a flag gives its value, another atom
\* is a domain error, anything else a type error
Get(f) == CASE f = <<"var">> -> "enumerates" [] IsAtom(f) /\ f[2] \in Changeable \cup ReadOnly -> "value"
            [] IsAtom(f) -> "domain_error(prolog_flag)" [] OTHER -> "type_error(atom)"
Observe(st) == [flags |-> st, undefined_call |-> (IF st.unknown = "error" THEN "existence_error" ELSE "fails"), string_is |-> st.double_quotes]

CONSTANT LEN
VARIABLES st, hist
vars == <<st, hist>>
Init == st = InitFlags /\ hist = <<>>
Set(f, v) == /\ st' = Apply(st, f, v)
             /\ hist' = (IF LEN = 0 THEN hist ELSE Append(hist, [f |-> f, v |-> v, allowed |-> Allowed(f, v), obs |-> Observe(Apply(st, f, v))]))
\* exhaustive exploration (LEN = 0: the history is not kept, the machine has 36 states)
NextAll == \E f \in FlagArgs, v \in ValArgs : Set(f, v)
\* random histories for the replayer: one random call per step, biased towards calls that change something
NextWalk == /\ Len(hist) < LEN
            /\ \E f \in { IF RandomElement(1..3) = 1 THEN RandomElement(FlagArgs) ELSE <<"atom", RandomElement(Changeable)>> } :
               \E v \in { IF IsAtom(f) /\ f[2] \in Changeable /\ RandomElement(1..3) > 1 THEN <<"atom", RandomElement(Values(f[2]))>> ELSE RandomElement(ValArgs) } :
                 Set(f, v)
Spec == Init /\ [][NextAll]_vars
WSpec == Init /\ [][NextWalk]_vars
Emit == Len(hist) = LEN /\ LEN > 0 => PrintT("CASE " \o ToJson([steps |-> hist, get |-> [i \in 1..4 |-> LET f == <<<<"var">>, <<"atom", "debug">>, <<"atom", "bogus">>, <<"int">>>>[i] IN [f |-> f, outcome |-> Get(f)]]]))
\* --- U1 ---
TypeOK == \A f \in Changeable : st[f] \in Values(f)
FailedUnchanged == [][\A f \in FlagArgs, v \in ValArgs : (Errors(f, v) # {} /\ st' = Apply(st, f, v)) => st' = st]_vars
OnlyThatFlag == [][\E g \in Changeable : \A h \in Changeable \ {g} : st'[h] = st[h]]_vars
\* every call has an outcome, and success and error exclude each other
ASSUME \A f \in FlagArgs, v \in ValArgs : Allowed(f, v) # {} /\ (("ok" \in Allowed(f, v)) => Allowed(f, v) = {"ok"})
ASSUME Allowed(<<"atom", "bounded">>, <<"var">>) = {"instantiation_error", "permission_error(modify,flag)"}
ASSUME Allowed(<<"atom", "debug">>, <<"atom", "codes">>) = {"domain_error(flag_value)"}
ASSUME Allowed(<<"atom", "unknown">>, <<"atom", "fail">>) = {"ok"}
=============================================================================
