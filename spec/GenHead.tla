------------------------------ MODULE GenHead ------------------------------
(* C01/C10 (U2), data side: every pair (argument shape in a clause, argument shape in the call) over a universe of nested   *)
(* compound / list / partial-list shapes with shared and repeated variables. GenProg.tla varies the control structure    *)
(* over few shapes; this module varies the shapes over four fixed control structures:                                    *)
(*   "head"  h(S1).                       ?- h(S2).          the call argument meets the compiled head                   *)
(*   "body"  h(S1).  w(X,Y,Z) :- h(S2).   ?- w(X,Y,Z).       the argument is built by the compiled body                  *)
(*   "rec"   h(S1).  w(X,Y,Z) :- X = S2, h(X).  ?- w(X,Y,Z). the argument arrives as a value bound at run time           *)
(*   "two"   t(S1,S1').  ?- t(S2,S2').   two arguments sharing variables (a sub-universe)                                *)
(*   "disj"  h(S1) :- pr(a) ; pr(b) ; pr(S1).  ?- h(S2).   the head in front of a body compiled once per alternative     *)
(* Engine.tla predicts the events (call ports, answers as bindings of X, Y, Z); the replayer compares.                   *)
EXTENDS Engine, Json
X == V(1)
Y == V(2)
Z == V(3)
a == A("a")
b == A("b")
F(t) == C("f", <<t>>)
G(s, t) == C("g", <<s, t>>)
H(t) == C("h", <<t>>)
T2(s, t) == C("t", <<s, t>>)
W == C("w", <<X, Y, Z>>)
Conj2(s, t) == C(",", <<s, t>>)
L3(x, y, z) == Cons(x, Cons(y, Cons(z, Nil)))
Shapes == { a, X, F(X), F(a), Nil, I(1), Cons(X, Y), Cons(X, Cons(Y, Z)), Cons(X, Cons(Y, Nil)), Cons(a, Cons(X, Y)), Cons(X, Cons(X, Y)),
            Cons(Cons(X, Y), Z), F(Cons(X, Y)), G(X, Cons(Y, Z)), L3(a, b, a), Cons(a, Cons(b, Nil)), Cons(X, a), Cons(a, Nil), G(X, X),
            L3(X, Y, Z), Cons(X, Cons(Y, Cons(Z, X))), G(F(X), L3(a, Y, Z)), Cons(a, Cons(b, Cons(a, Cons(b, Nil)))), Cons(X, Cons(b, Cons(Z, Y))),
            C("f", <<X, Y>>), C("g", <<X>>), F(C("f", <<a, Y>>)) }       \* the same names with other arities: f/2 beside f/1, g/1 beside g/2
Small == { X, Cons(X, Cons(Y, Z)), L3(a, b, a), Cons(a, Cons(X, Y)), F(Y), Cons(Y, Nil) }

CONSTANT MODES
Cl(h, bd) == [head |-> h, body |-> bd]
MkCls(cs, base) == [i \in 1..Len(cs) |->
                      LET t == C(":-", <<cs[i].head, cs[i].body>>) vs == TermVars(t) r == Renum(t, vs, 0)
                      IN [id |-> base + i, head |-> r[3][1], body |-> r[3][2], nv |-> Len(vs)]]
Prog(m, s1, s2) ==
  CASE m = "head" -> << [key |-> <<"h", 1>>, dyn |-> FALSE, cls |-> MkCls(<<Cl(H(s1[1]), TrueA)>>, 0)] >>
    [] m = "body" -> << [key |-> <<"h", 1>>, dyn |-> FALSE, cls |-> MkCls(<<Cl(H(s1[1]), TrueA)>>, 0)],
                        [key |-> <<"w", 3>>, dyn |-> FALSE, cls |-> MkCls(<<Cl(W, H(s2[1]))>>, 10)] >>
    [] m = "rec"  -> << [key |-> <<"h", 1>>, dyn |-> FALSE, cls |-> MkCls(<<Cl(H(s1[1]), TrueA)>>, 0)],
                        [key |-> <<"w", 3>>, dyn |-> FALSE, cls |-> MkCls(<<Cl(W, Conj2(C("=", <<X, s2[1]>>), H(X)))>>, 10)] >>
    [] m = "two"  -> << [key |-> <<"t", 2>>, dyn |-> FALSE, cls |-> MkCls(<<Cl(T2(s1[1], s1[2]), TrueA)>>, 0)] >>
    \* "disj"  h(S1) :- pr(a) ; pr(b) ; pr(S1).   every head shape (every length of head code) in front of a body that is compiled once per alternative
    [] m = "disj" -> << [key |-> <<"h", 1>>, dyn |-> FALSE,
                         cls |-> MkCls(<<Cl(H(s1[1]), C(";", <<C("pr", <<a>>), C(";", <<C("pr", <<b>>), C("pr", <<s1[1]>>)>>)>>))>>, 0)],
                        [key |-> <<"pr", 1>>, dyn |-> FALSE, cls |-> MkCls(<<Cl(C("pr", <<X>>), TrueA)>>, 20)] >>
Query(m, s2) == CASE m \in {"head", "disj"} -> H(s2[1]) [] m = "two" -> T2(s2[1], s2[2]) [] OTHER -> W
ArgTuples(m) == IF m = "two" THEN Small \X Small ELSE { <<s>> : s \in Shapes }

VARIABLES st, hist, mode, s1, s2
gvars == <<st, hist, mode, s1, s2>>
GInit == /\ mode \in MODES /\ s1 \in ArgTuples(mode) /\ s2 \in ArgTuples(mode)
         /\ st = InitState(Prog(mode, s1, s2), Query(mode, s2), 3)
         /\ hist = <<>>
GNext == /\ ~Terminal(st)
         /\ \E t \in Steps(st) : /\ ~(st.status = "answer" /\ t.status = "closed")
                                 /\ st' = t
                                 /\ hist' = IF t.ev # NoEv THEN Append(hist, t.ev) ELSE hist
         /\ UNCHANGED <<mode, s1, s2>>
GSpec == GInit /\ [][GNext]_gvars
Emit == Judged(st) => PrintT("CASE " \o ToJson([db |-> Prog(mode, s1, s2), query |-> Query(mode, s2), qv |-> 3, events |-> hist]))
Bound == Len(hist) < 40 /\ Len(st.bind) < 120
=============================================================================
