SPECIFICATION Spec
CONSTANTS NT = 2
          N1 = 4
          N2 = 2
          PAIR = TRUE
          N3 = 0
INVARIANT Invisible
INVARIANT SourceOrder
INVARIANT ReplaceUnlessMultifile
INVARIANT Emit
PROPERTY AllOrNothing
PROPERTY DirectivesInPlace
CHECK_DEADLOCK FALSE
