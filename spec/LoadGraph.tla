------------------------------ MODULE LoadGraph ------------------------------
(* C05 / C20: loading files that load each other. A file is a sequence of directives followed by one fact f_<file>; the     *)
(* directives are  ensure_loaded(x) ("ens"; consult/1 and [x] are the same operation),  include(x) ("inc", textual          *)
(* inclusion into the text being compiled)  and  initialization(consult(x)) ("init", run after the text was committed).     *)
(* The loader is a stack machine, one action per step of the implementation's recursion (VM.ensureLoaded -> VM.Compile ->   *)
(* VM.compile -> VM.directive -> ...):                                                                                     *)
(*   - a file enters `loaded` BEFORE its text is compiled and leaves it again when the load fails: that is what makes a     *)
(*     cycle of ensure_loaded terminate;                                                                                   *)
(*   - include keeps the chain of files being included: a file that includes itself is an error (F29: it used to recurse   *)
(*     until the Go stack overflowed);                                                                                     *)
(*   - a text is committed (its facts become visible) when it ends without an error; its initialization goals run after    *)
(*     that; an error anywhere unwinds every load in progress.                                                             *)
(* Every open of a file is counted. Termination (the stack is bounded, the machine stops) is checked by TLC on every file  *)
(* graph of the configuration; the outcome, the number of opens and the set of visible facts are replayed on the real      *)
(* interpreter over an in-memory file system.                                                                              *)
EXTENDS Integers, Sequences, FiniteSets, TLC, Json
CONSTANTS Files, NDIR, KINDS
Dirs == { <<k, x>> : k \in KINDS, x \in Files }
Contents == [Files -> UNION { [1..n -> Dirs] : n \in 0..NDIR }]
Host == "host"           \* the text handed to Exec: one directive
VARIABLES content, entry, stack, loaded, opens, defined, status
vars == <<content, entry, stack, loaded, opens, defined, status>>
\* a frame: file f at directive pos; own = it compiles a text of its own (ensure_loaded) / it is included into the text of the
\* nearest own frame below; an own frame carries its text: the facts whose run is closed (facts), the fact of the run still open
\* (buf, "" = none), the initialization goals, and its phase
Frame(f, own) == [f |-> f, pos |-> 1, own |-> own, facts |-> {}, buf |-> "", goals |-> <<>>, phase |-> "read"]
DirsOf(f) == IF f = Host THEN <<entry>> ELSE content[f]
Init == /\ content \in Contents /\ entry \in { <<k, x>> : k \in KINDS \ {"init"}, x \in Files }
        /\ stack = << Frame(Host, TRUE) >> /\ loaded = {} /\ opens = 0 /\ defined = {} /\ status = "run"
Top == stack[Len(stack)]
\* the index of the frame owning the text that the top frame compiles into
RECURSIVE OwnerFrom(_)
OwnerFrom(i) == IF stack[i].own THEN i ELSE OwnerFrom(i - 1)
Owner == OwnerFrom(Len(stack))
Including == { stack[i].f : i \in (Owner + 1)..Len(stack) }          \* the files being included into the current text
\* Every directive, and the end of the text, closes the open run of clauses: a second run for the same predicate is an error (the
\* predicate is not declared discontiguous) - a file included twice into one text brings its fact twice.
FlushAt(stk, o) == LET e == stk[o] IN
                   IF e.buf = "" THEN [ok |-> TRUE, s |-> stk]
                   ELSE IF e.buf \in e.facts THEN [ok |-> FALSE, s |-> stk]
                   ELSE [ok |-> TRUE, s |-> [stk EXCEPT ![o].facts = @ \cup {e.buf}, ![o].buf = ""]]
AddFactAt(stk, o, f) == IF stk[o].buf = f THEN [ok |-> TRUE, s |-> stk]
                        ELSE LET fl == FlushAt(stk, o) IN IF ~fl.ok THEN fl ELSE [ok |-> TRUE, s |-> [fl.s EXCEPT ![o].buf = f]]
SetTopOf(stk, fr) == [stk EXCEPT ![Len(stk)] = fr]
\* ensure_loaded(x), from a directive or from an initialization goal: after the step, the caller has moved on
Ensure(x, caller) ==
  /\ opens' = opens + 1
  /\ IF x \in loaded THEN stack' = caller /\ loaded' = loaded
     ELSE stack' = Append(caller, Frame(x, TRUE)) /\ loaded' = loaded \cup {x}
  /\ UNCHANGED <<defined, status>>
Fail == \* an error unwinds everything; the files whose load was in progress are forgotten
  /\ status' = "error" /\ loaded' = loaded \ { stack[i].f : i \in { j \in 1..Len(stack) : stack[j].own } }
  /\ stack' = <<>> /\ UNCHANGED <<defined>>
Step ==
  /\ status = "run" /\ UNCHANGED <<content, entry>>
  /\ LET fr == Top ds == DirsOf(fr.f) IN
     IF fr.phase = "goals" THEN
          IF fr.goals = <<>> THEN \* the load is complete
               /\ stack' = SubSeq(stack, 1, Len(stack) - 1) /\ status' = (IF Len(stack) = 1 THEN "ok" ELSE "run")
               /\ UNCHANGED <<loaded, opens, defined>>
          ELSE Ensure(fr.goals[1], SetTopOf(stack, [fr EXCEPT !.goals = Tail(@)]))
     ELSE IF fr.pos > Len(ds) THEN \* the end of the file: its fact, then the end of the inclusion or the commit of the text
          IF fr.own THEN LET af == IF fr.f = Host THEN [ok |-> TRUE, s |-> stack] ELSE AddFactAt(stack, Len(stack), fr.f)
                             fl == IF af.ok THEN FlushAt(af.s, Len(stack)) ELSE af IN
                         IF ~fl.ok THEN opens' = opens /\ Fail
                         ELSE /\ defined' = defined \cup fl.s[Len(stack)].facts
                              /\ stack' = SetTopOf(fl.s, [fl.s[Len(stack)] EXCEPT !.phase = "goals"]) /\ UNCHANGED <<loaded, opens, status>>
          ELSE LET af == AddFactAt(SubSeq(stack, 1, Len(stack) - 1), Owner, fr.f) IN
               IF ~af.ok THEN opens' = opens /\ Fail
               ELSE stack' = af.s /\ UNCHANGED <<loaded, opens, defined, status>>
     ELSE LET d == ds[fr.pos] fl == FlushAt(stack, Owner) IN       \* a directive first closes the open run
          IF ~fl.ok THEN opens' = opens /\ Fail
          ELSE LET adv == SetTopOf(fl.s, [fl.s[Len(stack)] EXCEPT !.pos = @ + 1]) IN
               CASE d[1] = "ens" -> Ensure(d[2], adv)
                 [] d[1] = "init" -> /\ stack' = [adv EXCEPT ![Owner].goals = Append(@, d[2])] /\ UNCHANGED <<loaded, opens, defined, status>>
                 [] d[1] = "inc" -> IF d[2] \in Including THEN opens' = opens + 1 /\ Fail
                                    ELSE /\ opens' = opens + 1 /\ stack' = Append(adv, Frame(d[2], FALSE))
                                         /\ UNCHANGED <<loaded, defined, status>>
Done == status # "run" /\ UNCHANGED vars
Spec == Init /\ [][Step \/ Done]_vars /\ WF_vars(Step)
Emit == status # "run" => PrintT("CASE " \o ToJson([files |-> content, entry |-> entry, status |-> status, opens |-> opens, defined |-> defined, loaded |-> loaded]))
\* --- U1 ---
Terminates == <>(status # "run")
\* the recursion is bounded by the number of files: every file is being loaded at most once (NoDoubleLoad), and between two loads
\* every file is being included at most once
\* (the host's text, then at most |Files| loads, each of the |Files| + 1 texts with at most |Files| inclusions in progress)
StackBounded == Len(stack) <= (Cardinality(Files) + 1) * (Cardinality(Files) + 1)
NoDoubleInclude == \A i, j \in 1..Len(stack) : (i < j /\ ~stack[i].own /\ ~stack[j].own /\ stack[i].f = stack[j].f) => \E k \in (i + 1)..(j - 1) : stack[k].own
NoDoubleLoad == \A i, j \in 1..Len(stack) : (i # j /\ stack[i].own /\ stack[j].own) => stack[i].f # stack[j].f
\* nothing becomes visible while an error unwinds, and the files whose load failed are forgotten
ErrorKeeps == [][status' = "error" => (defined' = defined /\ loaded' \subseteq loaded)]_vars
=============================================================================
