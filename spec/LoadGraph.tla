------------------------------ MODULE LoadGraph ------------------------------
(* C05 / C20: loading files that load each other. A file is a sequence of directives followed by one fact f_<file>; the     *)
(* directives are  ensure_loaded(x) ("ens"; consult/1 and [x] are the same operation),  include(x) ("inc", textual          *)
(* inclusion into the text being compiled)  and  initialization(consult(x)) ("init", run after the text was committed).     *)
(* The loader is a stack machine, one action per step of the implementation's recursion (VM.ensureLoaded -> VM.Compile ->   *)
(* VM.compile -> VM.directive -> ...):                                                                                     *)
(*   - a file enters `loaded` BEFORE its text is compiled and leaves it again when the load fails: that is what makes a     *)
(*     cycle of ensure_loaded terminate;                                                                                   *)
(*   - include keeps the chain of files being included: a file that includes itself is an error (F29: it used to recurse   *)
(*     until the Go stack overflowed);                                                                                     *)
(*   - a text is committed (its facts become visible) when it ends without an error; its initialization goals run after    *)
(*     that; an error anywhere unwinds every load in progress.                                                             *)
(* Every open of a file is counted. Termination (the stack is bounded, the machine stops) is checked by TLC on every file  *)
(* graph of the configuration; the outcome, the number of opens and the set of visible facts are replayed on the real      *)
(* interpreter over an in-memory file system.                                                                              *)
EXTENDS Integers, Sequences, FiniteSets, TLC, Json
CONSTANTS Files, NDIR, KINDS
Dirs == { <<k, x>> : k \in KINDS, x \in Files }
Contents == [Files -> UNION { [1..n -> Dirs] : n \in 0..NDIR }]
Host == "host"           \* the text handed to Exec: one directive
VARIABLES content, entry, stack, loaded, opens, defined, status
vars == <<content, entry, stack, loaded, opens, defined, status>>
\* a frame: file f at directive pos; own = it compiles a text of its own (ensure_loaded) / it is included into the text of the
\* nearest own frame below; an own frame carries the facts read so far, the initialization goals, and its phase
Frame(f, own) == [f |-> f, pos |-> 1, own |-> own, facts |-> {}, goals |-> <<>>, phase |-> "read"]
DirsOf(f) == IF f = Host THEN <<entry>> ELSE content[f]
Init == /\ content \in Contents /\ entry \in { <<k, x>> : k \in KINDS \ {"init"}, x \in Files }
        /\ stack = << Frame(Host, TRUE) >> /\ loaded = {} /\ opens = 0 /\ defined = {} /\ status = "run"
Top == stack[Len(stack)]
\* the index of the frame owning the text that the top frame compiles into
RECURSIVE OwnerFrom(_)
OwnerFrom(i) == IF stack[i].own THEN i ELSE OwnerFrom(i - 1)
Owner == OwnerFrom(Len(stack))
Including == { stack[i].f : i \in (Owner + 1)..Len(stack) }          \* the files being included into the current text
SetTop(fr) == [stack EXCEPT ![Len(stack)] = fr]
Advance == SetTop([Top EXCEPT !.pos = @ + 1])
\* ensure_loaded(x), from a directive or from an initialization goal: after the step, the caller has moved on
Ensure(x, caller) ==
  /\ opens' = opens + 1
  /\ IF x \in loaded THEN stack' = caller /\ loaded' = loaded
     ELSE stack' = Append(caller, Frame(x, TRUE)) /\ loaded' = loaded \cup {x}
  /\ UNCHANGED <<defined, status>>
Fail == \* an error unwinds everything; the files whose load was in progress are forgotten
  /\ status' = "error" /\ loaded' = loaded \ { stack[i].f : i \in { j \in 1..Len(stack) : stack[j].own } }
  /\ stack' = <<>> /\ UNCHANGED <<defined>>
Step ==
  /\ status = "run" /\ UNCHANGED <<content, entry>>
  /\ LET fr == Top ds == DirsOf(fr.f) IN
     IF fr.phase = "goals" THEN
          IF fr.goals = <<>> THEN \* the load is complete
               /\ stack' = SubSeq(stack, 1, Len(stack) - 1) /\ status' = (IF Len(stack) = 1 THEN "ok" ELSE "run")
               /\ UNCHANGED <<loaded, opens, defined>>
          ELSE Ensure(fr.goals[1], SetTop([fr EXCEPT !.goals = Tail(@)]))
     ELSE IF fr.pos > Len(ds) THEN \* the end of the file: its fact, then the end of the inclusion or the commit of the text
          IF fr.own THEN /\ defined' = defined \cup fr.facts \cup (IF fr.f = Host THEN {} ELSE {fr.f})
                         /\ stack' = SetTop([fr EXCEPT !.phase = "goals"]) /\ UNCHANGED <<loaded, opens, status>>
          ELSE /\ stack' = [SubSeq(stack, 1, Len(stack) - 1) EXCEPT ![Owner].facts = @ \cup {fr.f}]
               /\ UNCHANGED <<loaded, opens, defined, status>>
     ELSE LET d == ds[fr.pos] IN
          CASE d[1] = "ens" -> Ensure(d[2], Advance)
            [] d[1] = "init" -> /\ stack' = [Advance EXCEPT ![Owner].goals = Append(@, d[2])] /\ UNCHANGED <<loaded, opens, defined, status>>
            [] d[1] = "inc" -> IF d[2] \in Including THEN opens' = opens + 1 /\ Fail
                               ELSE /\ opens' = opens + 1 /\ stack' = Append(Advance, Frame(d[2], FALSE))
                                    /\ UNCHANGED <<loaded, defined, status>>
Done == status # "run" /\ UNCHANGED vars
Spec == Init /\ [][Step \/ Done]_vars /\ WF_vars(Step)
Emit == status # "run" => PrintT("CASE " \o ToJson([files |-> content, entry |-> entry, status |-> status, opens |-> opens, defined |-> defined, loaded |-> loaded]))
\* --- U1 ---
Terminates == <>(status # "run")
\* the recursion is bounded by the number of files: every file is being loaded at most once (NoDoubleLoad), and between two loads
\* every file is being included at most once
\* (the host's text, then at most |Files| loads, each of the |Files| + 1 texts with at most |Files| inclusions in progress)
StackBounded == Len(stack) <= (Cardinality(Files) + 1) * (Cardinality(Files) + 1)
NoDoubleInclude == \A i, j \in 1..Len(stack) : (i < j /\ ~stack[i].own /\ ~stack[j].own /\ stack[i].f = stack[j].f) => \E k \in (i + 1)..(j - 1) : stack[k].own
NoDoubleLoad == \A i, j \in 1..Len(stack) : (i # j /\ stack[i].own /\ stack[j].own) => stack[i].f # stack[j].f
\* nothing becomes visible while an error unwinds, and the files whose load failed are forgotten
ErrorKeeps == [][status' = "error" => (defined' = defined /\ loaded' \subseteq loaded)]_vars
=============================================================================
