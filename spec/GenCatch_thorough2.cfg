SPECIFICATION GSpec
CONSTANTS N = 2
          OUTER = TRUE
          AFTER = TRUE
          PRE = TRUE
          INCL = FALSE
CHECK_DEADLOCK FALSE
INVARIANT Emit
INVARIANT CatchIdsUnique
PROPERTY UnwindExact
CONSTRAINT Bound
