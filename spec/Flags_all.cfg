SPECIFICATION Spec
CONSTANT LEN = 0
INVARIANT TypeOK
PROPERTY FailedUnchanged
PROPERTY OnlyThatFlag
CHECK_DEADLOCK FALSE
