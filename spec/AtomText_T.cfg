SPECIFICATION Spec
CONSTANTS NC = @NC@
          NLEN = @NLEN@
INVARIANT Emit
CHECK_DEADLOCK FALSE
