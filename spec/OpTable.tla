------------------------------ MODULE OpTable ------------------------------
(* C18: ISO 8.14.3 op/3 and 8.14.4 current_op/3 as a state machine.                        *)
(* The state is the operator table restricted to the tracked names (a set of entries        *)
(* <<name, class, priority, specifier>>); one action = one op/3 call with arbitrary         *)
(* arguments. Errors(t, call) is the SET of errors ISO allows for the call (ISO leaves the  *)
(* choice open when several apply); the call must succeed iff the set is empty, and a      *)
(* failed call leaves the table unchanged.                                                 *)
EXTENDS Integers, Sequences, FiniteSets, TLC, Json

Names == {"a", "b", ",", "|", "[]", "{}"}
Specs == {"fx", "fy", "xf", "yf", "xfx", "xfy", "yfx"}
Class(s) == IF s \in {"fx", "fy"} THEN "pre" ELSE IF s \in {"xf", "yf"} THEN "post" ELSE "inf"

\* a table is a set of entries <<name, class, priority, specifier>>
Defined(t, n, c) == \E e \in t : e[1] = n /\ e[2] = c
Initial == { <<",", "inf", 1000, "xfy">>, <<"|", "inf", 1105, "xfy">> }     \* what bootstrap.pl leaves for the tracked names

\* argument shapes. priority: ["int", p] | ["var"] | ["atom"]; spec: ["atom", s] | ["var"] | ["int"]
\* operator: ["atom", n] | ["list", <<elements>>, tail] with elements ["atom", n] | ["var"] | ["int"], tail "nil" | "var" | "atom"
OpNames(o) == IF o[1] = "atom" THEN {o[2]} ELSE { o[2][i][2] : i \in { j \in 1..Len(o[2]) : o[2][j][1] = "atom" } }

\* the set of errors ISO allows for a call (empty = the call must succeed)
Errors(t, p, s, o) ==
  (IF p[1] = "var" \/ s[1] = "var" THEN {"instantiation_error"} ELSE {})
  \cup (IF o[1] = "var" THEN {"instantiation_error"} ELSE {})
  \cup (IF o[1] = "list" /\ (o[3] = "var" \/ \E i \in 1..Len(o[2]) : o[2][i][1] = "var") THEN {"instantiation_error"} ELSE {})
  \cup (IF p[1] = "atom" THEN {"type_error(integer)"} ELSE {})
  \cup (IF s[1] = "int" THEN {"type_error(atom)"} ELSE {})
  \cup (IF o[1] = "int" \/ (o[1] = "list" /\ o[3] = "atom") THEN {"type_error(list)"} ELSE {})
  \cup (IF o[1] = "list" /\ \E i \in 1..Len(o[2]) : o[2][i][1] = "int" THEN {"type_error(atom)"} ELSE {})
  \cup (IF p[1] = "int" /\ (p[2] < 0 \/ p[2] > 1200) THEN {"domain_error(operator_priority)"} ELSE {})
  \cup (IF s[1] = "atom" /\ s[2] \notin Specs THEN {"domain_error(operator_specifier)"} ELSE {})
  \cup (IF o[1] \in {"atom", "list"} /\ "," \in OpNames(o) THEN {"permission_error(modify,operator)"} ELSE {})
  \cup (IF o[1] \in {"atom", "list"} /\ ({"[]", "{}"} \cap OpNames(o)) # {} THEN {"permission_error(create,operator)"} ELSE {})
  \cup (IF o[1] \in {"atom", "list"} /\ "|" \in OpNames(o) /\ s[1] = "atom" /\ s[2] \in Specs /\ p[1] = "int"
           /\ (Class(s[2]) # "inf" \/ (p[2] > 0 /\ p[2] < 1001))
        THEN {"permission_error(create,operator)", "permission_error(modify,operator)"} ELSE {})
  \cup (IF o[1] \in {"atom", "list"} /\ s[1] = "atom" /\ s[2] \in Specs /\ p[1] = "int" /\ p[2] > 0
           /\ \E n \in OpNames(o) : \/ (Class(s[2]) = "inf" /\ Defined(t, n, "post"))
                                    \/ (Class(s[2]) = "post" /\ Defined(t, n, "inf"))
        THEN {"permission_error(create,operator)"} ELSE {})

Apply(t, p, s, o) ==
  LET ns == OpNames(o) c == Class(s[2]) kept == { e \in t : ~(e[1] \in ns /\ e[2] = c) } IN
  IF p[2] = 0 THEN kept ELSE kept \cup { <<n, c, p[2], s[2]>> : n \in ns }

\* invariants of every reachable table
OnePerClass(t) == \A e1, e2 \in t : (e1[1] = e2[1] /\ e1[2] = e2[2]) => e1 = e2
NoInfixPostfix(t) == \A n \in Names : ~(Defined(t, n, "inf") /\ Defined(t, n, "post"))
CommaFixed(t) == { e \in t : e[1] = "," } = { <<",", "inf", 1000, "xfy">> }
BarRule(t) == \A e \in t : e[1] = "|" => (e[2] = "inf" /\ e[3] >= 1001)
NoBracketOps(t) == \A e \in t : e[1] \notin {"[]", "{}"}
PrioRange(t) == \A e \in t : e[3] \in 1..1200 /\ e[4] \in Specs /\ Class(e[4]) = e[2]
TableOK(t) == OnePerClass(t) /\ NoInfixPostfix(t) /\ CommaFixed(t) /\ BarRule(t) /\ NoBracketOps(t) /\ PrioRange(t)

-----------------------------------------------------------------------------
Prios == { <<"int", 0>>, <<"int", 200>>, <<"int", 1000>>, <<"int", 1001>>, <<"int", 1201>>, <<"int", -1>>, <<"var">>, <<"atom">> }
SpecArgs == { <<"atom", x>> : x \in Specs \cup {"foo"} } \cup { <<"var">>, <<"int">> }
El == { <<"atom", n>> : n \in Names }
OpArgs == El \cup { <<"list", <<e>>, "nil">> : e \in El }
          \cup { <<"list", <<<<"atom", "a">>, e>>, "nil">> : e \in El \cup { <<"int">>, <<"var">> } }
          \cup { <<"list", << <<"atom", "a">> >>, "var">>, <<"list", << <<"atom", "a">> >>, "atom">>, <<"var">>, <<"int">> }

CONSTANT D          \* depth up to which tables are reached before the probed call
VARIABLES tab, depth, probe
vars == <<tab, depth, probe>>
NoProbe == [none |-> TRUE]
Init == tab = Initial /\ depth = 0 /\ probe = NoProbe

Calls == Prios \X SpecArgs \X OpArgs
After(t, p, s, o) == IF Errors(t, p, s, o) = {} THEN Apply(t, p, s, o) ELSE t        \* a failed update changes nothing

\* Op: one op/3 call changes the table (or not)
Op == /\ probe = NoProbe /\ depth < D
      /\ \E c \in Calls : tab' = After(tab, c[1], c[2], c[3])
      /\ depth' = depth + 1 /\ UNCHANGED probe
\* Probe: the call whose transition is replayed on the implementation (terminal)
Probe == /\ probe = NoProbe
         /\ \E c \in Calls : probe' = [p |-> c[1], s |-> c[2], o |-> c[3], errs |-> Errors(tab, c[1], c[2], c[3]), after |-> After(tab, c[1], c[2], c[3])]
         /\ UNCHANGED <<tab, depth>>
Next == Op \/ Probe
Spec == Init /\ [][Next]_vars

Inv == TableOK(tab) /\ (probe # NoProbe => TableOK(probe.after))
FailedUnchanged == probe # NoProbe /\ probe.errs # {} => probe.after = tab
\* the view drops depth: a table is expanded once, at its minimal depth
TabView == <<tab, probe>>
Emit == probe # NoProbe => PrintT("CASE " \o ToJson([tab |-> tab, p |-> probe.p, s |-> probe.s, o |-> probe.o, errs |-> probe.errs, after |-> probe.after]))

\* --- exhaustive exploration of the table space (no probes, no depth bound): every reachable table satisfies TableOK ---
MCInit == tab = Initial /\ depth = 0 /\ probe = NoProbe
MCNext == /\ \E c \in Calls : tab' = After(tab, c[1], c[2], c[3])
          /\ UNCHANGED <<depth, probe>>
MCSpec == MCInit /\ [][MCNext]_vars
MCInv == TableOK(tab)
\* negative variant (vacuity guard): a machine that applies the update to the names before the invalid one is met
BadAfter(t, p, s, o) == IF Errors(t, p, s, o) \subseteq {"permission_error(create,operator)", "permission_error(modify,operator)"}
                           /\ p[1] = "int" /\ p[2] \in 0..1200 /\ s[1] = "atom" /\ s[2] \in Specs /\ o[1] \in {"atom", "list"}
                        THEN Apply(t, p, s, o) ELSE t
BadNext == /\ \E c \in Calls : tab' = BadAfter(tab, c[1], c[2], c[3])
           /\ UNCHANGED <<depth, probe>>
BadSpec == MCInit /\ [][BadNext]_vars
=============================================================================
