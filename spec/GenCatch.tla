------------------------------ MODULE GenCatch ------------------------------
(* C04: exhaustive catch/throw skeletons                                                       *)
(*     [g(A),] catch( (catch(G1, C1, R1), K), C2, w(r2(Y,Z)) )                                 *)
(* G1 a conjunction over Alpha (user balls, built-in errors, cut, \+, findall, probes, a       *)
(* nondeterministic generator), K a continuation that runs AFTER the inner catch/3 has exited  *)
(* (throwing at once, after backtracking into G1, or with a ball that shares a variable with   *)
(* G1), catchers that do / do not unify and share variables with the goal.                     *)
EXTENDS Engine, Json

X == V(1)
Y == V(2)
Z == V(3)
G(t) == C("g", <<t>>)
W(t) == C("w", <<t>>)
Thr(t) == C("throw", <<t>>)
B(t) == C("b", <<t>>)
B1 == A("b1")
Conj2(a, b) == C(",", <<a, b>>)
RECURSIVE Conj(_)
Conj(s) == IF Len(s) = 0 THEN A("true") ELSE IF Len(s) = 1 THEN s[1] ELSE C(",", <<s[1], Conj(Tail(s))>>)

Alpha == { G(X), W(A("a")), Thr(B1), Thr(B(X)), A("fail"), A("!"),
           C("is", <<V(6), A("foo")>>),                      \* type_error(evaluable, foo/0) raised by a built-in
           A("undef"),                                       \* existence_error(procedure, undef/0)
           C("\\+", <<Thr(B1)>>), C("findall", <<V(6), Thr(B(X)), V(7)>>) }
Seqs(n) == UNION { [1..k -> Alpha] : k \in 0..n }
Catchers1 == { B1, B(Y), V(4), C("error", <<V(4), V(9)>>) }   \* V(9): the implementation-defined context, not reported
Recov1 == { W(A("r")), Thr(B1), A("fail") }
Conts == { A("true"), A("fail"), Thr(B1), Conj2(C("==", <<X, A("b")>>), Thr(B1)), Thr(B(X)) }
Catchers2 == { B1, B(Z), V(5) }

Db0 == << [key |-> <<"g", 1>>, dyn |-> FALSE, cls |-> << [id |-> 1, head |-> G(A("a")), body |-> TrueA, nv |-> 0],
                                                         [id |-> 2, head |-> G(A("b")), body |-> TrueA, nv |-> 0] >>],
          [key |-> <<"w", 1>>, dyn |-> FALSE, cls |-> << [id |-> 3, head |-> W(V(1)), body |-> TrueA, nv |-> 1] >>] >>

CONSTANTS N,        \* maximal length of the inner goal
          OUTER,    \* TRUE: also run every skeleton behind an older choice point g(A)
          AFTER,    \* TRUE: also continue after the OUTER catch/3 has exited (both catches exited) with a throw
          PRE,      \* TRUE: also bind the outer catcher variable before the call
          INCL      \* TRUE: the inner catch/3 sits in a CLAUSE, followed by a cut:  cc(z).  cc(X) :- catch(G1, C1, R1), !, w(in).
\* the clause form: only X is shared with the query, every other variable of G1, C1, R1 is local to the clause
CcBody(g1, c1, r1) == Conj2(C("catch", <<Conj(g1), c1, r1>>), Conj2(A("!"), W(A("in"))))
CcClause(g1, c1, r1) == LET t == C(":-", <<C("cc", <<X>>), CcBody(g1, c1, r1)>>) vs == TermVars(t) r == Renum(t, vs, 0)
                        IN [id |-> 20, head |-> r[3][1], body |-> r[3][2], nv |-> Len(vs)]
DbOf(g1, c1, r1) == IF INCL THEN Db0 \o << [key |-> <<"cc", 1>>, dyn |-> FALSE, cls |-> << [id |-> 21, head |-> C("cc", <<A("z")>>), body |-> TrueA, nv |-> 0], CcClause(g1, c1, r1) >>] >>      \* the clause with the catch is the LAST one
                    ELSE Db0

Inner(g1, c1, r1, k, c2) == C("catch", << Conj2(IF INCL THEN C("cc", <<X>>) ELSE C("catch", <<Conj(g1), c1, r1>>), k), c2, W(C("r2", <<Y, Z>>)) >>)
Queries == { Inner(g1, c1, r1, k, c2) : g1 \in Seqs(N), c1 \in Catchers1, r1 \in Recov1, k \in Conts, c2 \in Catchers2 }
\* continuations that run after the outer catch/3 has exited, too: nothing may intercept their balls
Conts2 == { Thr(B1), Thr(B(X)), Conj2(A("fail"), A("true")) }
Queries2 == Queries \cup (IF AFTER THEN { Conj2(q, k2) : q \in Queries, k2 \in Conts2 } ELSE {})
AllQueries == Queries2 \cup (IF OUTER THEN { Conj2(G(V(8)), q) : q \in Queries2 } ELSE {})

VARIABLES st, hist, q, db
gvars == <<st, hist, q, db>>

\* (the components are enumerated, not the set AllQueries: building and normalising a set of 10^5 deep terms takes TLC longer
\* than exploring them)
NoK2 == A("$none")
\* the catcher of the OUTER catch/3 (a goal of the query itself, not compiled by a call/1 with the bindings applied) may be a
\* variable that an earlier goal has already bound - to the ball, or to something the ball does not unify with: catch/3 must
\* unify the catcher, not overwrite it
PreBound == { NoK2, B1, A("other"), B(A("b")) }
GInit == \E g1 \in Seqs(N), c1 \in Catchers1, r1 \in Recov1, k \in Conts, c2 \in Catchers2,
            k2 \in (IF AFTER THEN Conts2 \cup {NoK2} ELSE {NoK2}), o \in (IF OUTER THEN BOOLEAN ELSE {FALSE}) :
          \E pb \in (IF c2 = V(5) /\ PRE THEN PreBound ELSE {NoK2}) :
            LET q0 == Inner(g1, c1, r1, k, c2)
                q1 == IF k2 = NoK2 THEN q0 ELSE Conj2(q0, k2)
                q2 == IF pb = NoK2 THEN q1 ELSE Conj2(C("=", <<V(5), pb>>), q1)
            IN /\ q = (IF o THEN Conj2(G(V(8)), q2) ELSE q2)
               /\ db = DbOf(g1, c1, r1)
               /\ st = InitStateX(db, q, 8, 9)
               /\ hist = <<>>

GNext == /\ ~Terminal(st)
         /\ \E t \in Steps(st) : /\ ~(st.status = "answer" /\ t.status = "closed")
                                 /\ st' = t
                                 /\ hist' = IF t.ev # NoEv THEN Append(hist, t.ev) ELSE hist
         /\ UNCHANGED <<q, db>>

GSpec == GInit /\ [][GNext]_gvars
Emit == Judged(st) => PrintT("CASE " \o ToJson([db |-> db, query |-> q, qv |-> 8, events |-> hist]))
Bound == Len(hist) < 120 /\ Len(st.bind) < 400

\* --- U1: properties of the machine ---
\* every catch marker on the stack is older than the frames that run under it: ids are unique
CatchIdsUnique == \A i, j \in 1..Len(st.cps) : (st.cps[i].k = "catch" /\ st.cps[j].k = "catch" /\ i # j) => st.cps[i].id # st.cps[j].id
\* Unwinding restores the store of the selected catch (all later bindings are undone) and removes every younger choice point
IsThrowState(s) == s.status = "run" /\ s.goals # <<>> /\ IsCtl(s.goals[1].g) /\ s.goals[1].g[2] = "throw"
UnwindExact == [][IsThrowState(st) =>
                    \/ st'.status = "error" /\ st'.cps = <<>>
                    \/ st'.status = "sto"
                    \/ \E h \in 1..Len(st.cps) :
                          /\ st.cps[h].k = "catch"
                          /\ st'.cps = SubSeq(st.cps, 1, h - 1)
                          /\ \A k \in 1..Len(st.cps[h].bind) : st.cps[h].bind[k] # U => st'.bind[k] = st.cps[h].bind[k]
                          /\ ActiveIn(Tail(st.goals) \o SuspendedConts(st.cps), st.cps[h].id)]_gvars
=============================================================================
