SPECIFICATION Spec
CONSTANT SUB = FALSE
INVARIANT Emit
INVARIANT Sound
INVARIANT Symmetric
INVARIANT Idempotent
INVARIANT FailureKeeps
INVARIANT OCAgrees
INVARIANT Antisym
INVARIANT EqIffIdentical
INVARIANT Transitive
CHECK_DEADLOCK FALSE
