SPECIFICATION Spec
CONSTANT N = 3
INVARIANT Emit
PROPERTY OwnSinkOnly
PROPERTY Prefix
CHECK_DEADLOCK FALSE
