SPECIFICATION GSpec
CONSTANTS N = 3
          DOUBLE = FALSE
          ARITY0 = FALSE
CHECK_DEADLOCK FALSE
INVARIANT Emit
INVARIANT IdsUnique
PROPERTY LUV
PROPERTY DbStep
CONSTRAINT Bound
