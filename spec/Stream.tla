------------------------------- MODULE Stream -------------------------------
(* C19: one input stream as a forward cursor, and output streams as append-only sinks.       *)
(*                                                                                          *)
(* Input: src is the source as a sequence of symbolic characters ("E" stands for a 2-byte   *)
(* character); a text stream delivers characters, a binary stream the bytes of the same     *)
(* text. pos = number of items (characters / bytes) consumed. eos is the abstract end-of-   *)
(* stream state: "not" (input remains), "end?" (everything consumed, end_of_file not yet    *)
(* delivered: the property leaves open whether the implementation reports not or at), and   *)
(* "past" (end_of_file was delivered). Every operation appends what the program observes    *)
(* (result, byte position, end_of_stream) to hist.                                          *)
EXTENDS Integers, Sequences, FiniteSets, TLC, Json

Size(c) == IF c = "E" THEN 2 ELSE 1
Layout == {" ", "\n"}
Letters == {"a", "b", "c", "E"}
Code(c) == CASE c = "a" -> <<97>> [] c = "b" -> <<98>> [] c = "c" -> <<99>> [] c = "." -> <<46>> [] c = " " -> <<32>>
             [] c = "%" -> <<37>> [] c = "\n" -> <<10>> [] c = "E" -> <<195, 169>>
RECURSIVE BytesOf(_)
BytesOf(s) == IF s = <<>> THEN <<>> ELSE Code(s[1]) \o BytesOf(Tail(s))
RECURSIVE ByteLen(_,_)
ByteLen(s, k) == IF k = 0 THEN 0 ELSE ByteLen(s, k - 1) + Size(s[k])

\* --- a tiny lexical model of read_term/2: layout, % comments, names over Letters, the end token ---
RECURSIVE SkipLayout(_,_), SkipComment(_,_)
SkipLayout(s, p) == IF p < Len(s) /\ s[p+1] \in Layout THEN SkipLayout(s, p + 1)
                    ELSE IF p < Len(s) /\ s[p+1] = "%" THEN SkipComment(s, p + 1)
                    ELSE p
SkipComment(s, p) == IF p >= Len(s) THEN p ELSE IF s[p+1] = "\n" THEN SkipLayout(s, p + 1) ELSE SkipComment(s, p + 1)
RECURSIVE NameEnd(_,_)
NameEnd(s, p) == IF p < Len(s) /\ s[p+1] \in Letters THEN NameEnd(s, p + 1) ELSE p
IsEnd(s, p) == p < Len(s) /\ s[p+1] = "." /\ (p + 1 = Len(s) \/ s[p+2] \in Layout \cup {"%"})
\* kind "term": a name followed by the end token, consumed up to and including the end character;
\* kind "eof": only layout/comments remain; kind "other": outside the model (such reads are not generated)
ReadTerm(s, p) ==
  LET b == SkipLayout(s, p) IN
  IF b = Len(s) THEN [kind |-> "eof", val |-> <<>>, pos |-> Len(s)]
  ELSE LET e == NameEnd(s, b)
           e2 == SkipLayout(s, e)
       IN IF e > b /\ IsEnd(s, e2) THEN [kind |-> "term", val |-> SubSeq(s, b + 1, e), pos |-> e2 + 1]
          ELSE [kind |-> "other", val |-> <<>>, pos |-> p]

CharOps == {"get_char", "peek_char", "read"}
ByteOps == {"get_byte", "peek_byte"}
InputOps == CharOps \cup ByteOps
AllOps == InputOps \cup {"at_end"}

\* the machine: one step of operation op from (pos, eos); returns the observation and the new cursor
Items(src, typ) == IF typ = "text" THEN src ELSE BytesOf(src)
BytePos(src, typ, p) == IF typ = "text" THEN ByteLen(src, p) ELSE p
EosAt(n, p2) == IF p2 < n THEN "not" ELSE "end?"
StepOp(src, typ, act, pos, eos, op) ==
  LET items == Items(src, typ)
      n == Len(items)
      \* res: the kind of result ("item", "term", "eof", "perm_type", "perm_past", "true", "false", "any", "other"); val: its value
      obsv(res, val, p2, e2) == [op |-> op, res |-> res, val |-> val, pos |-> BytePos(src, typ, p2), eos |-> e2, npos |-> p2]
      obs(res, p2, e2) == obsv(res, <<>>, p2, e2)
  IN
  IF op = "at_end" THEN obs(IF pos < n THEN "false" ELSE IF eos = "past" /\ act # "reset" THEN "true" ELSE "any", pos, eos)
  ELSE IF (op \in CharOps /\ typ = "binary") \/ (op \in ByteOps /\ typ = "text")
       THEN \* wrong stream type: nothing moves; past the end of an eof_action(error) stream ISO allows either permission error
            obs(IF eos = "past" /\ act = "error" THEN "perm_either" ELSE "perm_type", pos, eos)
  ELSE IF eos = "past" /\ act = "error" THEN obs("perm_past", pos, eos)
  ELSE IF op \in {"get_char", "get_byte"} THEN
         (IF pos < n THEN obsv("item", <<items[pos + 1]>>, pos + 1, EosAt(n, pos + 1)) ELSE obs("eof", n, "past"))
  ELSE IF op \in {"peek_char", "peek_byte"} THEN
         (IF pos < n THEN obsv("item", <<items[pos + 1]>>, pos, eos) ELSE obs("eof", pos, eos))                                  \* a peek never moves the cursor
  ELSE \* read
       LET r == ReadTerm(src, pos) IN
       IF r.kind = "eof" THEN obs("eof", n, "past")
       ELSE IF r.kind = "term" THEN obsv("term", r.val, r.pos, EosAt(n, r.pos))
       ELSE obs("other", pos, eos)

CONSTANTS N,            \* number of operations
          SRCSET        \* "curated" | "all3" (every source of at most 3 characters)
Alphabet == {"a", ".", " ", "%", "\n", "E"}
Curated == { <<>>, <<"a">>, <<"a", "b">>, <<"a", ".">>, <<"a", ".", " ", "b", ".">>, <<"E", ".">>, <<"a", ".", "\n">>, <<"E", "a">>,
             <<"a", " ", ".", "%", "c", "\n", "b", ".">>, <<" ", "a", "b", ".", " ">>, <<"%", "a", "\n">>, <<"a", ".", "%", "b">>, <<"b", ".", "a", ".">> }
Sources == IF SRCSET = "curated" THEN Curated ELSE UNION { [1..k -> Alphabet] : k \in 0..3 }
EofActions == {"error", "eof_code", "reset"}

VARIABLES src, typ, act, pos, eos, hist
vars == <<src, typ, act, pos, eos, hist>>
Init == /\ src \in Sources /\ typ \in {"text", "binary"} /\ act \in EofActions
        /\ pos = 0 /\ eos = (IF Len(Items(src, typ)) = 0 THEN "end?" ELSE "not") /\ hist = <<>>
Next == /\ Len(hist) < N
        /\ \E op \in AllOps :
             LET o == StepOp(src, typ, act, pos, eos, op) IN
             /\ o.res # "other"
             /\ pos' = o.npos /\ eos' = o.eos
             /\ hist' = Append(hist, [op |-> o.op, res |-> o.res, val |-> o.val, pos |-> o.pos, eos |-> o.eos, p0 |-> pos, p1 |-> o.npos])
        /\ UNCHANGED <<src, typ, act>>
Spec == Init /\ [][Next]_vars

\* --- properties of the cursor (U1) ---
\* what was delivered by the consuming reads, in order, is exactly the consumed prefix of the source: nothing skipped or repeated
\* (p0, p1] is the range of items an operation consumed: the ranges tile the consumed prefix in order, a get delivers
\* exactly the one item of its range, a read delivers a name that lies inside its range
Delivered == /\ \A i \in 1..Len(hist) : hist[i].p0 = (IF i = 1 THEN 0 ELSE hist[i-1].p1) /\ hist[i].p0 <= hist[i].p1
             /\ (hist # <<>> => hist[Len(hist)].p1 = pos)
             /\ \A i \in 1..Len(hist) :
                   LET h == hist[i] IN
                   /\ (h.res = "item" /\ h.op \in {"get_char", "get_byte"} => h.p1 = h.p0 + 1 /\ h.val = <<Items(src, typ)[h.p1]>>)
                   /\ (h.res = "term" => \E a \in (h.p0 + 1)..h.p1 : SubSeq(src, a, a + Len(h.val) - 1) = h.val /\ a + Len(h.val) - 1 < h.p1)
                   /\ (h.res \in {"perm_type", "perm_past", "perm_either", "true", "false", "any"} => h.p1 = h.p0)
CursorOK == /\ pos \in 0..Len(Items(src, typ))
            /\ (eos = "not" <=> pos < Len(Items(src, typ)))
PeekKeeps == [][\A op \in {"peek_char", "peek_byte", "at_end"} :
                  (Len(hist') = Len(hist) + 1 /\ hist'[Len(hist')].op = op) => (pos' = pos /\ eos' = eos)]_vars
PastSticks == [][eos = "past" => eos' = "past" /\ pos' = pos]_vars
PositionIsBytes == hist # <<>> => hist[Len(hist)].pos = BytePos(src, typ, pos)

Emit == Len(hist) = N => PrintT("CASE " \o ToJson([src |-> src, typ |-> typ, act |-> act, hist |-> hist]))

\* negative variant (vacuity guard): a peek implemented as read + late un-read moves the cursor for the next operation
BadNext == /\ Len(hist) < N
           /\ \E op \in AllOps :
                LET o == StepOp(src, typ, act, pos, eos, IF op = "peek_char" THEN "get_char" ELSE op) IN
                /\ o.res # "other"
                /\ pos' = o.npos /\ eos' = o.eos
                /\ hist' = Append(hist, [op |-> op, res |-> o.res, val |-> o.val, pos |-> o.pos, eos |-> o.eos, p0 |-> pos, p1 |-> o.npos])
           /\ UNCHANGED <<src, typ, act>>
BadSpec == Init /\ [][BadNext]_vars
=============================================================================
