SPECIFICATION GSpec
CONSTANTS NR = 3
          NEST = TRUE
          LISTS = "tail"
CHECK_DEADLOCK FALSE
INVARIANT Emit
PROPERTY NoLeak
CONSTRAINT Bound
