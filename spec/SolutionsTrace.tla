--------------------------- MODULE SolutionsTrace ---------------------------
(* Trace validation for C12 at the level of SolutionsImpl.tla. The hooks in Next, Close and in the  *)
(* search goroutine started by QueryContext log, with a global sequence number, the steps             *)
(*   consumer : next_start, next_end:<ret>, close_start, close_end                                   *)
(*   goroutine: g_run, g_answer, g_handed, g_exit                                                    *)
(* The channel operations themselves are lock-free and not logged: they are internal steps of this   *)
(* specification (as in SolutionsImpl.tla: `more` buffered with capacity 1 and closed by Close,      *)
(* `next` unbuffered and closed when the goroutine returns). A hook fires after its step, so each    *)
(* process owes its pending observation (pend) before it may take another step; the merged log must  *)
(* be an interleaving of the two processes' observations that some execution of the model produces. *)
(* Handshake and NoWorkAfterClose are evaluated in every state of every recorded execution.          *)
EXTENDS Integers, Sequences, TLC, Json, IOUtils
Trace == ndJsonDeserialize(IOEnv.TRACE)
VARIABLES more, moreClosed, nextClosed, rendez, g, c, closed, done, pend, l
vars == <<more, moreClosed, nextClosed, rendez, g, c, closed, done, pend, l>>
None == "none"
Start == /\ more = <<>> /\ moreClosed = FALSE /\ nextClosed = FALSE /\ rendez = FALSE /\ g = "recvFirst" /\ c = "idle"
         /\ closed = FALSE /\ done = FALSE /\ pend = [p \in {"c", "g"} |-> None]
TInit == Trace[1].ev = "init" /\ Start /\ l = 2 /\ TLCSet(1, 2)
Free(p) == pend[p] = None
Owe(p, e) == pend' = [pend EXCEPT ![p] = e]
UC == UNCHANGED <<more, moreClosed, nextClosed, rendez, g, c, closed, done, l>>
\* a process logs the observation it owes: the next line of the trace
Log(p) == /\ pend[p] # None /\ l <= Len(Trace) /\ Trace[l].ev = pend[p]
          /\ pend' = [pend EXCEPT ![p] = None] /\ l' = l + 1
          /\ UNCHANGED <<more, moreClosed, nextClosed, rendez, g, c, closed, done>>
\* ---- consumer
CNextStart == /\ Free("c") /\ c = "idle" /\ c' = (IF closed \/ done THEN "ret_false" ELSE "nextSend") /\ Owe("c", "next_start")
              /\ UNCHANGED <<more, moreClosed, nextClosed, rendez, g, closed, done, l>>
CNextSend == /\ Free("c") /\ c = "nextSend" /\ Len(more) < 1 /\ ~moreClosed /\ more' = Append(more, TRUE) /\ c' = "nextRecv"
             /\ UNCHANGED <<moreClosed, nextClosed, rendez, g, closed, done, pend, l>>
CNextRecv == /\ Free("c") /\ c = "nextRecv"
             /\ \/ /\ rendez /\ Free("g") /\ rendez' = FALSE /\ g' = "handed" /\ c' = "ret_true" /\ Owe("g", "g_handed") /\ UNCHANGED done
                \/ /\ ~rendez /\ nextClosed /\ c' = "ret_false" /\ done' = TRUE /\ UNCHANGED <<rendez, g, pend>>
             /\ UNCHANGED <<more, moreClosed, nextClosed, closed, l>>
CNextReturn == /\ Free("c") /\ c \in {"ret_true", "ret_false"} /\ Owe("c", IF c = "ret_true" THEN "next_end:true" ELSE "next_end:false") /\ c' = "idle"
               /\ UNCHANGED <<more, moreClosed, nextClosed, rendez, g, closed, done, l>>
CCloseStart == /\ Free("c") /\ c = "idle" /\ c' = "closing" /\ Owe("c", "close_start")
               /\ UNCHANGED <<more, moreClosed, nextClosed, rendez, g, closed, done, l>>
CCloseDo == /\ Free("c") /\ c = "closing" /\ c' = "idle" /\ Owe("c", "close_end")
            /\ IF closed THEN UNCHANGED <<moreClosed, closed>> ELSE moreClosed' = TRUE /\ closed' = TRUE
            /\ UNCHANGED <<more, nextClosed, rendez, g, done, l>>
\* ---- search goroutine
GRecv(pcTrue, obsTrue, pcFalse) ==
  /\ Free("g")
  /\ \/ /\ more # <<>> /\ more' = Tail(more) /\ g' = (IF Head(more) THEN pcTrue ELSE pcFalse) /\ (IF Head(more) /\ obsTrue # None THEN Owe("g", obsTrue) ELSE UNCHANGED pend)
     \/ /\ more = <<>> /\ moreClosed /\ g' = pcFalse /\ UNCHANGED <<more, pend>>
  /\ UNCHANGED <<moreClosed, nextClosed, rendez, c, closed, done, l>>
GRecvFirst == g = "recvFirst" /\ GRecv("run", "g_run", "exit")
GAnswer == /\ Free("g") /\ g = "run" /\ g' = "send" /\ rendez' = TRUE /\ Owe("g", "g_answer")      \* the search found an answer: it is about to send it
           /\ UNCHANGED <<more, moreClosed, nextClosed, c, closed, done, l>>
GFinish == /\ Free("g") /\ g = "run" /\ g' = "exit"                                                  \* the search ended (no more answers, or an error)
           /\ UNCHANGED <<more, moreClosed, nextClosed, rendez, c, closed, done, pend, l>>
GAfterHanded == /\ Free("g") /\ g = "handed" /\ g' = "waitMore"
                /\ UNCHANGED <<more, moreClosed, nextClosed, rendez, c, closed, done, pend, l>>
GRecvMore == g = "waitMore" /\ GRecv("run", None, "exit")
GExitLog == /\ Free("g") /\ g = "exit" /\ g' = "closing_next" /\ Owe("g", "g_exit")                 \* the deferred hook runs before the deferred close(next)
            /\ UNCHANGED <<more, moreClosed, nextClosed, rendez, c, closed, done, l>>
GCloseNext == /\ Free("g") /\ g = "closing_next" /\ g' = "done" /\ nextClosed' = TRUE
              /\ UNCHANGED <<more, moreClosed, rendez, c, closed, done, pend, l>>
TReset == /\ l <= Len(Trace) /\ Trace[l].ev = "init" /\ pend = [p \in {"c", "g"} |-> None] /\ c = "idle"
          /\ more' = <<>> /\ moreClosed' = FALSE /\ nextClosed' = FALSE /\ rendez' = FALSE /\ g' = "recvFirst" /\ c' = "idle" /\ closed' = FALSE /\ done' = FALSE
          /\ pend' = pend /\ l' = l + 1
TNext == Log("c") \/ Log("g") \/ CNextStart \/ CNextSend \/ CNextRecv \/ CNextReturn \/ CCloseStart \/ CCloseDo
         \/ GRecvFirst \/ GAnswer \/ GFinish \/ GAfterHanded \/ GRecvMore \/ GExitLog \/ GCloseNext \/ TReset
TSpec == TInit /\ [][TNext]_vars
\* the search computes only while the consumer is blocked inside Next
Handshake == g \in {"run"} => c \in {"nextRecv"}
\* no answer is produced after Close
NoWorkAfterClose == (closed /\ c = "idle" /\ pend["c"] = None) => g # "run"
HW == TLCSet(1, IF TLCGet(1) < l THEN l ELSE TLCGet(1))
Accepted == IF TLCGet(1) = Len(Trace) + 1 THEN TRUE
            ELSE PrintT("REJECTED " \o ToString(TLCGet(1)) \o " " \o ToString(Len(Trace))) /\ FALSE
=============================================================================
