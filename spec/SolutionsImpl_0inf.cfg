SPECIFICATION Spec
CONSTANTS K = 0
          ENDS = "inf"
          CALLS = 7
          REMEMBER = TRUE
INVARIANT NeverBlocks
INVARIANT Handshake
INVARIANT Counted
INVARIANT ErrAfterDone
PROPERTY StopsOnClose
PROPERTY Terminates
CHECK_DEADLOCK FALSE
