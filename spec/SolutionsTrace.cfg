SPECIFICATION TSpec
CHECK_DEADLOCK FALSE
INVARIANT Handshake
CONSTRAINT HW
POSTCONDITION Accepted
