SPECIFICATION GSpec
CONSTANTS N = 3
          OUTER = TRUE
CHECK_DEADLOCK FALSE
INVARIANT Emit
INVARIANT CatchIdsUnique
PROPERTY UnwindExact
CONSTRAINT Bound
