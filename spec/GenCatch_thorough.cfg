SPECIFICATION GSpec
CONSTANTS N = 3
          OUTER = FALSE
          AFTER = FALSE
          PRE = FALSE
          INCL = FALSE
CHECK_DEADLOCK FALSE
INVARIANT Emit
INVARIANT CatchIdsUnique
PROPERTY UnwindExact
CONSTRAINT Bound
