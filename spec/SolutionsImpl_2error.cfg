SPECIFICATION Spec
CONSTANTS K = 2
          ENDS = "error"
          CALLS = 7
          REMEMBER = TRUE
INVARIANT NeverBlocks
INVARIANT Handshake
INVARIANT Counted
INVARIANT ErrAfterDone
PROPERTY StopsOnClose
PROPERTY Terminates
CHECK_DEADLOCK FALSE
