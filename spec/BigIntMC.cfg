SPECIFICATION Spec
CONSTANT R = 40
INVARIANT Agree
INVARIANT BitLaws
CHECK_DEADLOCK FALSE
