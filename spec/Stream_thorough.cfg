SPECIFICATION Spec
CONSTANTS N = 5
          SRCSET = "curated"
INVARIANT CursorOK
INVARIANT Delivered
INVARIANT PositionIsBytes
INVARIANT Emit
PROPERTY PeekKeeps
PROPERTY PastSticks
CHECK_DEADLOCK FALSE
