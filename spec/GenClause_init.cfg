SPECIFICATION GSpec
CONSTANT MODES = {"init"}
CHECK_DEADLOCK FALSE
INVARIANT Emit
CONSTRAINT Bound
