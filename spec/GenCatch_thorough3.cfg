SPECIFICATION GSpec
CONSTANTS N = 2
          OUTER = TRUE
          AFTER = FALSE
          PRE = FALSE
          INCL = TRUE
CHECK_DEADLOCK FALSE
INVARIANT Emit
INVARIANT CatchIdsUnique
PROPERTY UnwindExact
CONSTRAINT Bound
