------------------------------- MODULE Cancel -------------------------------
(* C13: nested trampolines and context cancellation.                                            *)
(* A level is one Promise.Force loop: at the top of every iteration it polls the context, then  *)
(* runs one delayed child. A child does bounded Go-level work and returns, or it starts a       *)
(* nested Force (findall/3, \+/1, consult, directives, initialization goals) and completes when *)
(* that returns. A Force returns normally when its stack is exhausted or a result is reached.   *)
(* Cancel may happen at any instant. pc of a level:                                             *)
(*   "top"   at the top of the loop (about to poll)                                             *)
(*   "ready" polled a live context (about to run a child or to return normally)                 *)
(*   "seen"  polled the cancelled context (about to return ctx.Err())                           *)
(*   "child" inside a child (possibly waiting for a nested level)                               *)
EXTENDS Integers, Sequences, TLC

CONSTANTS MaxDepth,      \* nesting bound
          InheritCtx,    \* TRUE: a nested Force gets the caller's context (the code); FALSE: a background context (negative config)
          MaxSteps       \* bound on children per run for the exhaustive search

VARIABLES levels,        \* sequence of [pc, own]; own = the context this level polls: "caller" | "background"
          ctx,           \* "live" | "cancelled"
          returned,      \* "no" | "ctxErr" | "normal"
          started,       \* children started so far
          lateStarts     \* children started by a poll that happened after the cancellation
vars == <<levels, ctx, returned, started, lateStarts>>

Top == Len(levels)
Sees(l) == levels[l].own = "caller" /\ ctx = "cancelled"

Init == /\ levels = << [pc |-> "top", own |-> "caller", late |-> FALSE] >>
        /\ ctx = "live" /\ returned = "no" /\ started = 0 /\ lateStarts = 0

\* the steps as functions on the stack of levels (shared with the trace specification CancelTrace.tla)
FPoll(lv, c) == [lv EXCEPT ![Len(lv)].pc = IF lv[Len(lv)].own = "caller" /\ c = "cancelled" THEN "seen" ELSE "ready",
                           ![Len(lv)].late = (c = "cancelled")]                \* late: this poll happened after the cancellation
FReturn(lv) == IF Len(lv) = 1 THEN <<>> ELSE [SubSeq(lv, 1, Len(lv) - 1) EXCEPT ![Len(lv) - 1].pc = "top"]
FStart(lv) == [lv EXCEPT ![Len(lv)].pc = "child"]
FDone(lv) == [lv EXCEPT ![Len(lv)].pc = "top"]
FNested(lv, own) == Append(lv, [pc |-> "top", own |-> own, late |-> FALSE])

\* select { case <-ctx.Done(): ... default: ... }
Poll == /\ Top > 0 /\ levels[Top].pc = "top"
        /\ levels' = FPoll(levels, ctx)
        /\ UNCHANGED <<ctx, returned, started, lateStarts>>
\* the level returns: ctx.Err() after "seen", normally after "ready"; the enclosing child completes
Return == /\ Top > 0 /\ levels[Top].pc \in {"seen", "ready"}
          /\ levels' = FReturn(levels)
          /\ returned' = IF Top > 1 THEN returned ELSE IF levels[Top].pc = "seen" THEN "ctxErr" ELSE "normal"
          /\ UNCHANGED <<ctx, started, lateStarts>>
StartChild == /\ Top > 0 /\ levels[Top].pc = "ready" /\ started < MaxSteps
              /\ levels' = FStart(levels)
              /\ started' = started + 1
              /\ UNCHANGED <<ctx, returned, lateStarts>>
\* an iteration that only pops an exhausted promise (a failed or finished alternative) and runs no child
PopOnly == /\ Top > 0 /\ levels[Top].pc = "ready"
           /\ levels' = FDone(levels)
           /\ UNCHANGED <<ctx, returned, started, lateStarts>>
ChildDone == /\ Top > 0 /\ levels[Top].pc = "child"
             /\ levels' = FDone(levels)
             /\ UNCHANGED <<ctx, returned, started, lateStarts>>
ChildNested == /\ Top > 0 /\ Top < MaxDepth /\ levels[Top].pc = "child"
               /\ levels' = FNested(levels, IF InheritCtx THEN levels[Top].own ELSE "background")
               /\ UNCHANGED <<ctx, returned, started, lateStarts>>
Cancel == /\ ctx = "live" /\ ctx' = "cancelled" /\ UNCHANGED <<levels, returned, started, lateStarts>>

Machine == Poll \/ Return \/ StartChild \/ PopOnly \/ ChildDone \/ ChildNested
Next == Machine \/ Cancel
\* an endless program: a level that polled a live context always starts a child (it never returns normally)
Endless == [][Return => levels[Top].pc = "seen"]_vars
Spec == Init /\ [][Next]_vars /\ WF_vars(Machine)

\* a poll that happens after the cancellation never leads to a child: no level goes on working after it
NoNewWorkAfterCancel == \A l \in 1..Top : ~(levels[l].pc \in {"ready", "child"} /\ levels[l].late)
\* hence at most one more child runs after the cancellation - the one whose poll preceded it
AtMostOne == [][ctx = "cancelled" /\ started' > started => ~levels[Top].late]_vars
\* once cancelled, the run ends (with the context's error unless it was just finishing by itself)
Prompt == (ctx = "cancelled") ~> (returned # "no")
=============================================================================
