SPECIFICATION Spec
CONSTANT N = 4
INVARIANT Emit
PROPERTY OwnSinkOnly
PROPERTY Prefix
CHECK_DEADLOCK FALSE
