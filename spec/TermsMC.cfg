SPECIFICATION Spec
INVARIANT Laws
INVARIANT Order
CHECK_DEADLOCK FALSE
