SPECIFICATION GSpec
CONSTANTS N1 = 2
          N2 = 1
          ND = 0
          NCTX = 8
          ALPHA = "deep"
CHECK_DEADLOCK FALSE
INVARIANT Emit
PROPERTY CutExact
INVARIANT BarrierOK
CONSTRAINT Bound
