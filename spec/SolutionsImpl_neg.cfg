SPECIFICATION Spec
CONSTANTS K = 2
          ENDS = "end"
          CALLS = 7
          REMEMBER = FALSE
INVARIANT NeverBlocks
INVARIANT Handshake
INVARIANT Counted
INVARIANT ErrAfterDone
PROPERTY StopsOnClose
PROPERTY Terminates
CHECK_DEADLOCK FALSE
