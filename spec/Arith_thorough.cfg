SPECIFICATION Spec
CONSTANT SUBGRID = FALSE
INVARIANT Emit
INVARIANT DivLaw
INVARIANT FloorLaw
INVARIANT InRangeOrErr
CHECK_DEADLOCK FALSE
