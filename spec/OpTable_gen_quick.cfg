SPECIFICATION Spec
CONSTANT D = 1
INVARIANT Inv
INVARIANT FailedUnchanged
INVARIANT Emit
VIEW TabView
CHECK_DEADLOCK FALSE
