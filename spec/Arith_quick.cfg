SPECIFICATION Spec
CONSTANT SUBGRID = TRUE
INVARIANT Emit
INVARIANT DivLaw
INVARIANT FloorLaw
INVARIANT InRangeOrErr
CHECK_DEADLOCK FALSE
