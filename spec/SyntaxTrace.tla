---------------------------- MODULE SyntaxTrace ----------------------------
(* Validation of what the real writer wrote (code -> spec) for C06 / the writing half of C18: every record of the file  *)
(* named by TRACE - a term, the operator definitions of the names that occur in its text, and the tokens the real lexer *)
(* cuts the written text into - must satisfy: the term is one that the term grammar of Syntax.tla gives these tokens     *)
(* under this table (Relaxed: an operator atom may stand as an operand, which this reader accepts).                      *)
EXTENDS Syntax, Json, IOUtils
Trace == ndJsonDeserialize(IOEnv.TRACE)
VARIABLE l
ToSet(s) == { s[i] : i \in 1..Len(s) }
Denoted(r) == r.term \in Relaxed(r.toks, ToSet(r.table))
TInit == l = 1 /\ TLCSet(1, 1)
TStep == /\ l <= Len(Trace)
         /\ \/ Trace[l].ev = "init"
            \/ Trace[l].ev = "written" /\ Denoted(Trace[l])
         /\ l' = l + 1
TSpec == TInit /\ [][TStep]_l
HW == TLCSet(1, IF TLCGet(1) < l THEN l ELSE TLCGet(1))
Accepted == IF TLCGet(1) = Len(Trace) + 1 THEN TRUE
            ELSE PrintT("REJECTED " \o ToString(TLCGet(1)) \o " " \o ToString(Len(Trace))) /\ FALSE
=============================================================================
