---------------------------- MODULE SyntaxTrace ----------------------------
(* Validation of what the real writer wrote (code -> spec) for C06 / the writing half of C18: every record of the file  *)
(* named by TRACE - a term, the operator definitions of the names that occur in its text, and the tokens the real lexer *)
(* cuts the written text into - must satisfy: the term is one that the term grammar of Syntax.tla gives these tokens     *)
(* under this table (Relaxed: an operator atom may stand as an operand, which this reader accepts); and the text itself,   *)
(* character by character, must be cut into those tokens by the token syntax of Lexer.tla - so the written text denotes    *)
(* the term by the SPECIFICATION of reading (Lexer.tla + Syntax.tla), whatever the real reader does.                         *)
EXTENDS Syntax, Lexer, Json, IOUtils
Trace == ndJsonDeserialize(IOEnv.TRACE)
VARIABLE l
ToSet(s) == { s[i] : i \in 1..Len(s) }
Denoted(r) == r.term \in Relaxed(r.toks, ToSet(r.table))
\* the token syntax of Lexer.tla cuts the written text (followed by ' .') into exactly the tokens the real lexer delivered
LexAgrees(r) == LET lt == Lex(r.chars) IN
                /\ Len(lt) = Len(r.raw)
                /\ \A i \in 1..Len(lt) : lt[i].k = r.raw[i][1] /\ lt[i].v = r.raw[i][2]
TInit == l = 1 /\ TLCSet(1, 1)
TStep == /\ l <= Len(Trace)
         /\ \/ Trace[l].ev = "init"
            \/ Trace[l].ev = "written" /\ Denoted(Trace[l]) /\ LexAgrees(Trace[l])
         /\ l' = l + 1
TSpec == TInit /\ [][TStep]_l
HW == TLCSet(1, IF TLCGet(1) < l THEN l ELSE TLCGet(1))
Accepted == IF TLCGet(1) = Len(Trace) + 1 THEN TRUE
            ELSE PrintT("REJECTED " \o ToString(TLCGet(1)) \o " " \o ToString(Len(Trace))) /\ FALSE
=============================================================================
