SPECIFICATION GSpec
CONSTANTS MODES = {"head", "body", "rec", "two"}
CHECK_DEADLOCK FALSE
INVARIANT Emit
CONSTRAINT Bound
