SPECIFICATION GSpec
CONSTANTS NR = 3
          NEST = TRUE
          LISTS = "order"
CHECK_DEADLOCK FALSE
INVARIANT Emit
PROPERTY NoLeak
CONSTRAINT Bound
