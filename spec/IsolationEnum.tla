---------------------------- MODULE IsolationEnum ----------------------------
(* C14, part 2b (extends IsolationVM.tla with one variable, hence a module of its own).                                    *)
EXTENDS IsolationVM
(* Open enumerations. An interpreter that enumerates part of its state (current_prolog_flag/2, current_op/3,               *)
(* current_predicate/1 with unbound arguments) through a Solutions it has not yet exhausted must go on seeing ITS state    *)
(* whatever the other interpreter does meanwhile - change the same fields, or run the same enumeration. The histories      *)
(* are: B changes a field; A opens an enumeration and takes one answer; B changes another field and/or runs the same       *)
(* enumeration to its end; A takes the rest. What an enumeration shows is a function of the fields it covers.              *)
Enums == {"flags", "ops", "preds"}
Covers(e) == CASE e = "flags" -> {"double_quotes", "unknown", "debug", "char_conv_flag"} [] e = "ops" -> {"ops"} [] e = "preds" -> {"clauses", "consulted", "dynamic"}
Shows(i, e) == [f \in Covers(e) |-> vm[i][f]]
VARIABLE open
evars == <<vm, hist, done, open>>
EInit == Init /\ open = [i \in VMs |-> "none"]
EMutate(i, f) == /\ ~done /\ open[i] = "none"        \* the enumerating interpreter itself does not change its state meanwhile
                 /\ vm' = [vm EXCEPT ![i][f] = "mut"]
                 /\ hist' = Append(hist, [vm |-> i, field |-> f]) /\ UNCHANGED <<done, open>>
EOpen(i, e) == /\ ~done /\ open[i] = "none" /\ open' = [open EXCEPT ![i] = e]
               /\ hist' = Append(hist, [vm |-> i, enum |-> e, phase |-> "open", shows |-> Shows(i, e)]) /\ UNCHANGED <<vm, done>>
ERest(i) == /\ ~done /\ open[i] # "none" /\ open' = [open EXCEPT ![i] = "none"]
            /\ hist' = Append(hist, [vm |-> i, enum |-> open[i], phase |-> "rest", shows |-> Shows(i, open[i])]) /\ UNCHANGED <<vm, done>>
EFinish == ~done /\ Len(hist) >= 4 /\ open = [i \in VMs |-> "none"] /\ hist[Len(hist)].vm = "A" /\ done' = TRUE /\ UNCHANGED <<vm, hist, open>>
\* what B does while A's enumeration is open: change a field the enumeration covers, or run the same enumeration
BStep == \/ \E f \in Covers(open["A"]) : vm["B"][f] = "init" /\ open["B"] = "none" /\ EMutate("B", f)
         \/ open["B"] = "none" /\ Len(hist) = 2 /\ EOpen("B", open["A"])
         \/ ERest("B")
\* the shape of the histories (a filter inside the next-state relation)
ENext == \/ EFinish
         \/ Len(hist) = 0 /\ \E f \in Fields \ {"alias", "output", "input", "char_conv", "std_input", "ops_read"} : EMutate("B", f)
         \/ Len(hist) = 1 /\ \E e \in Enums : hist[1].field \in Covers(e) /\ EOpen("A", e)
         \/ Len(hist) \in 2..3 /\ open["A"] # "none" /\ BStep
         \/ Len(hist) \in 3..4 /\ open["B"] = "none" /\ ERest("A")
ESpec == EInit /\ [][ENext]_evars
\* what A is shown when it takes the rest is what it was shown when it opened: nothing B did in between matters
EnumStable == \A k \in 1..Len(hist) : ("phase" \in DOMAIN hist[k] /\ hist[k].phase = "rest") =>
                 \E j \in 1..(k - 1) : "phase" \in DOMAIN hist[j] /\ hist[j].phase = "open" /\ hist[j].vm = hist[k].vm /\ hist[j].shows = hist[k].shows
EEmit == done => PrintT("CASE " \o ToJson([hist |-> hist, sees |-> vm]))
=====================================================================================================================================================
