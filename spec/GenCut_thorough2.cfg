SPECIFICATION GSpec
CONSTANTS N1 = 4
          N2 = 0
          ND = 0
          NCTX = 8
          ALPHA = "cuts"
CHECK_DEADLOCK FALSE
INVARIANT Emit
INVARIANT BarrierOK
PROPERTY CutExact
CONSTRAINT Bound
