------------------------------- MODULE Terms -------------------------------
(* Term algebra used by every term-level module.                                   *)
(*   atom      <<"a", name>>           name a string                               *)
(*   integer   <<"i", n>>              small integer (|n| < 2^30)                   *)
(*   float     <<"f", k>>              the float k/2 (enough to order floats, and      *)
(*                                     floats against integers, in the standard order) *)
(*   opaque    <<"n", id>>             big integer / other float carried as a string   *)
(*   variable  <<"v", k>>              k \in 1..Len(store)                          *)
(*   compound  <<"c", functor, args>>  args a non-empty sequence of terms           *)
(* A binding store is a sequence b with b[k] = U (unbound) or a term.              *)
EXTENDS Integers, Sequences, FiniteSets, TLC

U == <<"u">>

A(n) == <<"a", n>>
I(n) == <<"i", n>>
V(k) == <<"v", k>>
C(f, args) == <<"c", f, args>>

IsVar(t) == t[1] = "v"
IsAtom(t) == t[1] = "a"
IsInt(t) == t[1] = "i"
IsFloat(t) == t[1] = "f"
Fl(k) == <<"f", k>>
IsNum(t) == t[1] = "i" \/ t[1] = "n" \/ t[1] = "f"
IsCmp(t) == t[1] = "c"
IsAtomic(t) == t[1] \in {"a", "i", "n", "f"}
IsCallable(t) == IsAtom(t) \/ IsCmp(t)

Nil == A("[]")
Cons(h, t) == C(".", <<h, t>>)
RECURSIVE MkList(_)
MkList(s) == IF s = <<>> THEN Nil ELSE Cons(s[1], MkList(Tail(s)))

Name(t) == t[2]
Arity(t) == IF IsCmp(t) THEN Len(t[3]) ELSE 0
Args(t) == IF IsCmp(t) THEN t[3] ELSE <<>>
Key(t) == <<Name(t), Arity(t)>>

Fresh(n) == [i \in 1..n |-> U]

RECURSIVE Walk(_,_)
Walk(t, b) == IF IsVar(t) /\ b[t[2]] # U THEN Walk(b[t[2]], b) ELSE t

RECURSIVE Resolve(_,_)
Resolve(t, b) == LET w == Walk(t, b) IN
                 IF IsCmp(w) THEN C(w[2], [i \in 1..Len(w[3]) |-> Resolve(w[3][i], b)]) ELSE w

RECURSIVE Occurs(_,_,_)
Occurs(k, t, b) == LET w == Walk(t, b) IN
                   IF IsVar(w) THEN w[2] = k
                   ELSE IF IsCmp(w) THEN \E i \in 1..Len(w[3]) : Occurs(k, w[3][i], b)
                   ELSE FALSE

\* work-list unification. mode 0: no occurs check (ISO =/2); mode 1: occurs check, a cyclic binding fails
\* (unify_with_occurs_check/2); mode 2: a binding that would create a cyclic term is reported as sto = TRUE
\* ("subject to occurs check": ISO leaves the outcome undefined, the machine stops judging such a run).
\* The occurs test is only needed when a variable is bound to a compound term.
RECURSIVE UnifyL(_,_,_)
UnifyL(wl, b, mode) ==
  IF wl = <<>> THEN [ok |-> TRUE, b |-> b, sto |-> FALSE]
  ELSE LET x == Walk(wl[1][1], b)
           y == Walk(wl[1][2], b)
           rest == Tail(wl)
       IN IF x = y THEN UnifyL(rest, b, mode)
          ELSE IF IsVar(x) THEN (IF mode > 0 /\ IsCmp(y) /\ Occurs(x[2], y, b) THEN [ok |-> FALSE, b |-> b, sto |-> mode = 2]
                                 ELSE UnifyL(rest, [b EXCEPT ![x[2]] = y], mode))
          ELSE IF IsVar(y) THEN (IF mode > 0 /\ IsCmp(x) /\ Occurs(y[2], x, b) THEN [ok |-> FALSE, b |-> b, sto |-> mode = 2]
                                 ELSE UnifyL(rest, [b EXCEPT ![y[2]] = x], mode))
          ELSE IF IsCmp(x) /\ IsCmp(y) /\ x[2] = y[2] /\ Len(x[3]) = Len(y[3])
               THEN UnifyL([i \in 1..Len(x[3]) |-> <<x[3][i], y[3][i]>>] \o rest, b, mode)
               ELSE [ok |-> FALSE, b |-> b, sto |-> FALSE]

\* on failure the caller keeps its own store: the partially extended one is never returned
UnifyM(x, y, b, mode) == LET r == UnifyL(<< <<x, y>> >>, b, mode) IN IF r.ok THEN r ELSE [ok |-> FALSE, b |-> b, sto |-> r.sto]
Unify(x, y, b) == UnifyM(x, y, b, 0)
UnifyOC(x, y, b) == UnifyM(x, y, b, 1)
UnifyS(x, y, b) == UnifyM(x, y, b, 2)

\* renaming apart: clause-local variable k becomes store variable k + off
RECURSIVE Shift(_,_)
Shift(t, off) == IF IsVar(t) THEN V(t[2] + off)
                 ELSE IF IsCmp(t) THEN C(t[2], [i \in 1..Len(t[3]) |-> Shift(t[3][i], off)])
                 ELSE t

\* variables of a resolved term in first-occurrence order (left to right, depth first)
RECURSIVE VarsL(_,_)
VarsL(ts, acc) ==
  IF ts = <<>> THEN acc
  ELSE LET t == ts[1] IN
       IF IsVar(t) THEN VarsL(Tail(ts), IF \E i \in 1..Len(acc) : acc[i] = t[2] THEN acc ELSE Append(acc, t[2]))
       ELSE IF IsCmp(t) THEN VarsL(t[3] \o Tail(ts), acc)
       ELSE VarsL(Tail(ts), acc)
TermVars(t) == VarsL(<<t>>, <<>>)

IndexOf(s, x) == CHOOSE i \in 1..Len(s) : s[i] = x

\* rename the variables of a resolved term by a mapping given as a sequence vs: vs[i] |-> i + off
RECURSIVE Renum(_,_,_)
Renum(t, vs, off) == IF IsVar(t) THEN V(IndexOf(vs, t[2]) + off)
                     ELSE IF IsCmp(t) THEN C(t[2], [i \in 1..Len(t[3]) |-> Renum(t[3][i], vs, off)])
                     ELSE t

\* canonical form of a term under a store: resolved, variables numbered 1.. by first occurrence
Canon(t, b) == LET r == Resolve(t, b) IN Renum(r, TermVars(r), 0)
NVars(t, b) == Len(TermVars(Resolve(t, b)))

\* list view: <<ok, elems, tail>> of a resolved term
RECURSIVE ListView(_,_)
ListView(t, acc) == IF IsCmp(t) /\ t[2] = "." /\ Len(t[3]) = 2 THEN ListView(t[3][2], Append(acc, t[3][1]))
                    ELSE [elems |-> acc, tail |-> t]

-----------------------------------------------------------------------------
(* Standard order of terms as the property states it:                       *)
(*   Var < Float < Integer < Atom < Compound;                                *)
(*   compounds by arity, then name, then arguments left to right.            *)
(* Atom names are ordered by their position in AtomsSorted (a spec constant  *)
(* listing, in character-code order, every atom the generators may use).     *)
AtomsSorted == << "", "!", "+", ",", "-", ".", ";", "=", "B", "[]", "a", "a1", "ab", "b", "b1", "b2", "b3", "c", "d", "e",
                  "f", "foo", "g", "h", "k", "p", "q", "r", "s", "t", "x", "y", "z", "{}" >>
AtomRank(n) == IF \E i \in 1..Len(AtomsSorted) : AtomsSorted[i] = n THEN IndexOf(AtomsSorted, n)
               ELSE Assert(FALSE, <<"atom not in vocabulary", n>>)

Class(t) == CASE IsVar(t) -> 0 [] t[1] = "f" -> 1 [] t[1] = "n" -> 5 [] IsInt(t) -> 2 [] IsAtom(t) -> 3 [] OTHER -> 4

Sgn(d) == IF d < 0 THEN -1 ELSE IF d > 0 THEN 1 ELSE 0

RECURSIVE CmpL(_)
\* compare a work list of pairs of RESOLVED terms
CmpL(wl) ==
  IF wl = <<>> THEN 0
  ELSE LET x == wl[1][1] y == wl[1][2] rest == Tail(wl) IN
       IF Class(x) # Class(y) THEN Sgn(Class(x) - Class(y))
       ELSE CASE IsVar(x) -> (IF x[2] = y[2] THEN CmpL(rest) ELSE Sgn(x[2] - y[2]))
              [] IsInt(x) \/ IsFloat(x) -> (IF x[2] = y[2] THEN CmpL(rest) ELSE Sgn(x[2] - y[2]))
              [] IsAtom(x) -> (IF x[2] = y[2] THEN CmpL(rest) ELSE Sgn(AtomRank(x[2]) - AtomRank(y[2])))
              [] IsCmp(x) -> (IF Len(x[3]) # Len(y[3]) THEN Sgn(Len(x[3]) - Len(y[3]))
                              ELSE IF x[2] # y[2] THEN Sgn(AtomRank(x[2]) - AtomRank(y[2]))
                              ELSE CmpL([i \in 1..Len(x[3]) |-> <<x[3][i], y[3][i]>>] \o rest))
              [] OTHER -> Assert(FALSE, "opaque numbers are not ordered by this module")
Compare(x, y, b) == CmpL(<< <<Resolve(x, b), Resolve(y, b)>> >>)

\* TRUE iff the outcome of Compare depends on the relative order of two distinct variables
RECURSIVE DepL(_)
DepL(wl) ==
  IF wl = <<>> THEN FALSE
  ELSE LET x == wl[1][1] y == wl[1][2] rest == Tail(wl) IN
       IF Class(x) # Class(y) THEN FALSE
       ELSE CASE IsVar(x) -> (IF x[2] = y[2] THEN DepL(rest) ELSE TRUE)
              [] IsCmp(x) -> (IF Len(x[3]) # Len(y[3]) \/ x[2] # y[2] THEN FALSE
                              ELSE DepL([i \in 1..Len(x[3]) |-> <<x[3][i], y[3][i]>>] \o rest))
              [] OTHER -> (IF x = y THEN DepL(rest) ELSE FALSE)
VarOrderDependent(x, y, b) == DepL(<< <<Resolve(x, b), Resolve(y, b)>> >>)

\* insertion sort of resolved terms; dedupe removes Compare-equal neighbours
RECURSIVE InsertSorted(_,_,_)
InsertSorted(s, t, dedupe) ==
  IF s = <<>> THEN <<t>>
  ELSE LET c == CmpL(<< <<t, s[1]>> >>) IN
       IF c < 0 THEN <<t>> \o s
       ELSE IF c = 0 /\ dedupe THEN s
       ELSE <<s[1]>> \o InsertSorted(Tail(s), t, dedupe)
RECURSIVE SortTerms(_,_)
SortTerms(s, dedupe) == IF s = <<>> THEN <<>> ELSE InsertSorted(SortTerms(SubSeq(s, 1, Len(s)-1), dedupe), s[Len(s)], dedupe)

\* keysort/2: stable insertion by the key of Key-Value pairs
RECURSIVE InsertByKey(_,_)
InsertByKey(s, t) == IF s = <<>> THEN <<t>>
                     ELSE IF CmpL(<< <<t[3][1], s[1][3][1]>> >>) < 0 THEN <<t>> \o s
                     ELSE <<s[1]>> \o InsertByKey(Tail(s), t)          \* equal keys: the later element stays behind the earlier one
RECURSIVE KeySortTerms(_)
KeySortTerms(s) == IF s = <<>> THEN <<>> ELSE InsertByKey(KeySortTerms(SubSeq(s, 1, Len(s) - 1)), s[Len(s)])

\* variant test of two resolved terms
Variant(x, y) == Renum(x, TermVars(x), 0) = Renum(y, TermVars(y), 0)
=============================================================================
