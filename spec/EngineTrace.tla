---------------------------- MODULE EngineTrace ----------------------------
(* Trace validation (code -> spec) for the engine family: C01 C03 C04 C09 C11.                 *)
(* The file named by the environment variable TRACE holds concatenated traces recorded from   *)
(* the real interpreter: an "init" line (database, query, number of query variables) followed  *)
(* by one line per observable event (call port of a program predicate, answer, end).          *)
(* One TLC state corresponds to one consumed line: Run(st) folds the silent machine steps up   *)
(* to the next observable event, TStep requires that event to equal the logged one.            *)
(* Acceptance: the high-water mark of l (TLC register 1) reaches Len(Trace) + 1.               *)
EXTENDS Engine, Json

Trace == ndJsonDeserialize(IOEnv.TRACE)
FUEL == 20000          \* silent steps between two observable events
CRASHFUEL == 400       \* steps within which the reference must finish for a crash/hang of the real code to count

VARIABLES st, l
tvars == <<st, l>>

Load(line) == InitStateX(line.db, line.query, line.qv, line.nv)

TInit == /\ Trace[1].ev = "init"
         /\ st = Load(Trace[1])
         /\ l = 2
         /\ TLCSet(1, 2)

RECURSIVE Run(_,_)
Run(s, fuel) == IF fuel = 0 \/ Len(s.bind) > 5000 THEN {[s EXCEPT !.status = "budget"]}
                ELSE UNION { IF t.ev # NoEv \/ Terminal(t) THEN {t} ELSE Run(t, fuel - 1) : t \in Steps(s) }

RECURSIVE JoinStr(_)
JoinStr(q) == IF q = <<>> THEN "" ELSE q[1] \o JoinStr(Tail(q))

Match(e, line) ==
  /\ e.ev = line.ev
  /\ JoinStr(e.out) = line.out
  /\ CASE e.ev = "call" -> e.goal = line.goal
       [] e.ev = "ans" -> e.b = line.b
       [] e.ev = "end" -> /\ e.kind = line.kind
                          /\ (e.kind = "error" => e.ball = line.ball)
       [] OTHER -> FALSE

\* statuses in which the reference run is not judged (ISO leaves the behaviour undefined / step budget exhausted)
NotJudged(s) == s.status \in {"sto", "unspec", "budget"}

TStep == /\ l <= Len(Trace)
         /\ Trace[l].ev \notin {"init", "crash", "hang"}
         /\ ~NotJudged(st)
         /\ \E t \in Run(st, FUEL) :
              /\ \/ Match(t.ev, Trace[l])
                 \/ NotJudged(t) /\ PrintT("DISCARD " \o t.status)
              /\ st' = t
         /\ l' = l + 1

\* the rest of a trace whose reference run is not judged is skipped
TSkip == /\ l <= Len(Trace)
         /\ Trace[l].ev # "init"
         /\ NotJudged(st)
         /\ l' = l + 1
         /\ UNCHANGED st

\* the real interpreter died or did not return on this program: acceptable only if the reference run is not judged
\* (a cyclic term was created - undefined by ISO - or the step budget is exhausted)
RECURSIVE RunAll(_,_)
RunAll(s, fuel) == IF fuel = 0 \/ Len(s.bind) > 2000 THEN {[s EXCEPT !.status = "budget"]}
                   ELSE IF Terminal(s) THEN {s}
                   ELSE UNION { RunAll(t, fuel - 1) : t \in { u \in Steps(s) : u.status # "closed" } }
TCrash == /\ l <= Len(Trace)
          /\ Trace[l].ev \in {"crash", "hang"}
          /\ \E t \in RunAll(st, CRASHFUEL) : NotJudged(t) /\ PrintT("DISCARD " \o t.status) /\ st' = t
          /\ l' = l + 1

TReset == /\ l <= Len(Trace)
          /\ Trace[l].ev = "init"
          /\ (Terminal(st) \/ NotJudged(st))          \* the previous trace was consumed up to its end event
          /\ st' = Load(Trace[l])
          /\ l' = l + 1

TNext == TStep \/ TSkip \/ TCrash \/ TReset
TSpec == TInit /\ [][TNext]_tvars

HW == TLCSet(1, IF TLCGet(1) < l THEN l ELSE TLCGet(1))
Accepted == IF TLCGet(1) = Len(Trace) + 1 THEN TRUE
            ELSE PrintT("REJECTED " \o ToString(TLCGet(1)) \o " " \o ToString(Len(Trace))) /\ FALSE
=============================================================================
