--------------------------- MODULE DecompileTrace ---------------------------
(* Validation of dumped compiled clauses (code -> spec) for C10: every record of the file named by  *)
(* TRACE - one compiled clause of the real interpreter: predicate, arity, stored term, number of     *)
(* variables, bytecode - must satisfy Denotes and NVarsOK of Decompile.tla.                          *)
EXTENDS Decompile, TLC
Trace == ndJsonDeserialize(IOEnv.TRACE)
VARIABLE l
TInit == l = 1 /\ TLCSet(1, 1)
TStep == /\ l <= Len(Trace)
         /\ \/ Trace[l].ev = "init"
            \/ Trace[l].ev = "clause" /\ Denotes(Trace[l]) /\ NVarsOK(Trace[l])
         /\ l' = l + 1
TSpec == TInit /\ [][TStep]_l
HW == TLCSet(1, IF TLCGet(1) < l THEN l ELSE TLCGet(1))
Accepted == IF TLCGet(1) = Len(Trace) + 1 THEN TRUE
            ELSE PrintT("REJECTED " \o ToString(TLCGet(1)) \o " " \o ToString(Len(Trace))) /\ FALSE
=============================================================================
