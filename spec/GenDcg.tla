------------------------------- MODULE GenDcg -------------------------------
(* C17: exhaustive grammars over the terminals {x, y}: non-terminals s//1, a//1, b//0 stratified   *)
(* so that the grammar is not left recursive (s may use a and b, a may use b, b terminals only),   *)
(* two rules each, bodies using every construct: terminal lists, a string literal, non-terminals  *)
(* with an argument, sequence, alternation with ; and |, {}//1, \+//1, !//0, call//1, if-then-else, *)
(* push-back. Each grammar is run on every input list of length <= NI in recognition mode          *)
(* (phrase/3 with an unbound remainder; phrase/2) and, if GEN, in generation mode (phrase/2 with   *)
(* an unbound list, first answers). The translation Dcg.Rule executed by Engine.tla predicts the   *)
(* sequence of (argument, remainder) answers.                                                      *)
EXTENDS Engine, Dcg, Json

X == A("x")
Y == A("y")
T(s) == MkList(s)
NT(n) == A(n)
NTa(n, t) == C(n, <<t>>)
VA == V(1)          \* the argument of the rule head

BBodies == { T(<<X>>), Nil }
\* a(p) --> A1.   a(q) --> A2.
ABodies == { T(<<X>>), T(<<Y>>), T(<<X, Y>>), Nil, And(NT("b"), T(<<X>>)), C(";", <<T(<<X>>), NT("b")>>), And(T(<<X>>), A("!")), And(A("!"), NT("b")),
             And(C("\\+", <<T(<<Y>>)>>), NT("b")), C("{}", <<A("true")>>), C("{}", <<A("fail")>>), And(NT("b"), And(A("!"), T(<<Y>>))),
             And(T(<<X>>), C("\\+", <<T(<<Y>>)>>)), C("\\+", <<T(<<X>>)>>) }        \* \+ as the LAST goal of a body: it must not see the remainder
\* s(A) --> S1.   s(r) --> S2.
SBodies == { And(NTa("a", VA), NT("b")), And(NTa("a", VA), And(A("!"), NT("b"))), C(";", <<NTa("a", VA), NT("b")>>), C("|", <<NTa("a", VA), T(<<Y>>)>>),
             And(C("\\+", <<NTa("a", V(2))>>), NT("b")), C(";", <<C("->", <<NTa("a", VA), NT("b")>>), T(<<Y>>)>>), And(C("call", <<A("a"), VA>>), NT("b")),
             And(NTa("a", VA), And(C("{}", <<A("!")>>), NT("b"))), And(NTa("a", VA), NTa("a", V(2))), And(And(NTa("a", VA), A("!")), NT("b")),
             And(NTa("a", VA), And(C("{}", <<C("=", <<VA, A("q")>>)>>), NT("b"))), And(T(<<X>>), And(NTa("a", VA), T(<<Y>>))), And(NTa("a", VA), C("\\+", <<NT("b")>>)),
             \* the empty terminal list as a member of a sequence next to an if-then WITHOUT else, as a branch of an alternation: the sequence
             \* is a conjunction, so the alternation is a plain disjunction (not an if-then-else that commits)
             C(";", <<And(Nil, C("->", <<NTa("a", VA), NT("b")>>)), And(NTa("a", VA), T(<<Y>>))>>),
             C("|", <<And(C("->", <<NTa("a", VA), T(<<X>>)>>), Nil), NTa("a", VA)>>),
             And(Nil, And(NTa("a", VA), Nil)) }
S2Bodies == { T(<<X>>), NT("b"), And(NT("b"), A("!")), And(T(<<X>>), C("\\+", <<NT("b")>>)) }

Cl(id, r) == [id |-> id, head |-> r.head, body |-> r.body, nv |-> r.nv]
\* b1pb: the first rule of b has a push-back:  b, [y] --> B1.  - of two terminals, b, [y,x] --> B1., in the grammars whose a2 is b
Db(s1, s2, a1, a2, b1, b1pb) ==
  << [key |-> <<"s", 3>>, dyn |-> FALSE, cls |-> << Cl(1, Rule(NTa("s", VA), <<>>, s1, 2)), Cl(2, Rule(NTa("s", A("r")), <<>>, s2, 0)) >>],
     [key |-> <<"a", 3>>, dyn |-> FALSE, cls |-> << Cl(3, Rule(NTa("a", A("p")), <<>>, a1, 0)), Cl(4, Rule(NTa("a", A("q")), <<>>, a2, 0)) >>],
     [key |-> <<"b", 2>>, dyn |-> FALSE, cls |-> << Cl(5, Rule(NT("b"), IF ~b1pb THEN <<>> ELSE IF a2 = NT("b") THEN <<Y, X>> ELSE <<Y>>, b1, 0)), Cl(6, Rule(NT("b"), <<>>, T(<<Y>>), 0)) >>] >>

CONSTANTS NI,       \* maximal input length
          GEN,      \* TRUE: also the generation mode
          FULL      \* FALSE: a sub-space of the grammars (quick)
Inputs == UNION { [1..k -> {X, Y}] : k \in 0..NI }
Grammars == IF FULL THEN { <<s1, s2, a1, a2, b1, pb>> : s1 \in SBodies, s2 \in S2Bodies, a1 \in ABodies, a2 \in {T(<<X>>), NT("b")}, b1 \in BBodies, pb \in BOOLEAN }
            ELSE { <<s1, s2, a1, a2, b1, pb>> : s1 \in SBodies, s2 \in {T(<<X>>)}, a1 \in ABodies, a2 \in {NT("b")}, b1 \in {T(<<X>>)}, pb \in BOOLEAN }
\* query modes: "rest" phrase(s(A), Input, Rest); "all" phrase(s(A), Input); "gen" phrase(s(A), L)
\*              "rem1" / "rem2" phrase(s(A), Input, Suffix) with the remainder GIVEN: the last one / two elements of the input
\*              "direct" phrase(Body, Input, Rest) with a BODY given directly ([] and ! included), not a non-terminal of the grammar
Modes == IF GEN THEN {"rest", "all", "gen", "rem1", "rem2", "direct"} ELSE {"rest", "all", "rem1", "rem2", "direct"}
DirectBodies == << Nil, A("!"), T(<<X>>), And(T(<<X>>), Nil), And(A("!"), T(<<X>>)), NT("b"), C("\\+", <<T(<<X>>)>>), C("{}", <<A("true")>>), C(";", <<Nil, T(<<X>>)>>),
                   And(Nil, A("!")), C("|", <<A("!"), T(<<Y>>)>>) >>
VARIABLES st, hist, gr, inp, mode, db
gvars == <<st, hist, gr, inp, mode, db>>

Query(m, i, k) == CASE m = "rest" -> C("s", <<V(1), T(i), V(2)>>)
                 [] m = "all" -> C("s", <<V(1), T(i), Nil>>)
                 [] m = "gen" -> C("s", <<V(1), V(2), Nil>>)
                 [] m = "direct" -> Body(DirectBodies[k], T(i), V(2), 3).g
                 [] m = "rem1" -> C("s", <<V(1), T(i), T(SubSeq(i, Len(i), Len(i)))>>)
                 [] m = "rem2" -> C("s", <<V(1), T(i), T(SubSeq(i, Len(i) - 1, Len(i)))>>)
GInit == /\ mode \in Modes
         /\ gr \in (IF mode = "direct" THEN {CHOOSE g \in Grammars : g[6] = FALSE} ELSE Grammars)      \* one grammar is enough for the direct bodies
         /\ db \in (IF mode = "direct" THEN 1..Len(DirectBodies) ELSE {0})
         /\ inp \in (IF mode = "gen" THEN {<<>>} ELSE IF mode = "rem1" THEN { i \in Inputs : Len(i) >= 1 } ELSE IF mode = "rem2" THEN { i \in Inputs : Len(i) >= 2 } ELSE Inputs)
         /\ st = InitStateX(Db(gr[1], gr[2], gr[3], gr[4], gr[5], gr[6]), Query(mode, inp, db), 2, 12)
         /\ hist = <<>>
Answers == Len(SelectSeq(hist, LAMBDA e : e.ev = "ans"))
GNext == /\ ~Terminal(st)
         /\ \E t \in Steps(st) : /\ (st.status = "answer" => IF mode = "gen" /\ Answers >= 4 THEN t.status = "closed" ELSE t.status # "closed")
                                 /\ st' = t
                                 /\ hist' = IF t.ev.ev \in {"ans", "end"} THEN Append(hist, t.ev) ELSE hist
         /\ UNCHANGED <<gr, inp, mode, db>>
GSpec == GInit /\ [][GNext]_gvars
Emit == Judged(st) => PrintT("CASE " \o ToJson([gr |-> gr, inp |-> inp, mode |-> mode, events |-> hist, body |-> IF db = 0 THEN Nil ELSE DirectBodies[db]]))
Bound == Len(hist) < 60 /\ Len(st.bind) < 400

\* --- U1: the translated grammar accepts exactly what plain derivation accepts (grammars without cut, \+, {}, call, ->, arguments of a and push-back are
\*     compared on the set of remainders) ---
RECURSIVE Plain(_)
Plain(b) == IF IsCmp(b) /\ b[2] \in {",", ";", "|"} THEN Plain(b[3][1]) /\ Plain(b[3][2])
            ELSE IF IsCmp(b) /\ b[2] \in {"\\+", "{}", "call", "->"} THEN FALSE
            ELSE b # A("!")
RECURSIVE Strip(_)
Strip(b) == IF IsCmp(b) /\ b[2] \in {",", ";", "|"} THEN C(b[2], <<Strip(b[3][1]), Strip(b[3][2])>>)     \* drop the arguments of non-terminals
            ELSE IF IsCmp(b) /\ b[2] = "a" THEN A("a") ELSE b
Gr == [n \in {"s", "a", "b"} |-> CASE n = "s" -> <<Strip(gr[1]), Strip(gr[2])>> [] n = "a" -> <<Strip(gr[3]), Strip(gr[4])>> [] OTHER -> <<gr[5], T(<<Y>>)>>]
Remainders == { ListView(hist[i].b[2], <<>>).elems : i \in { j \in 1..Len(hist) : hist[j].ev = "ans" } }
LanguagePreserved == (Judged(st) /\ mode = "rest" /\ ~gr[6] /\ \A k \in 1..5 : Plain(gr[k]))
                        => Remainders = Parse(Gr, A("s"), inp, 12)
=============================================================================
