SPECIFICATION WSpec
CONSTANTS N = 0
          SRCSET = "curated"
          WN = 12
          WLEN = 8
INVARIANT WOK
INVARIANT WEmit
CHECK_DEADLOCK FALSE
