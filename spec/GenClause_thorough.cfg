SPECIFICATION GSpec
CONSTANT MODES = {"consult", "assertz"}
CHECK_DEADLOCK FALSE
INVARIANT Emit
CONSTRAINT Bound
