SPECIFICATION Spec
CONSTANT NL = 3
INVARIANT Emit
INVARIANT Ascending
INVARIANT SameSet
INVARIANT KeyStable
CHECK_DEADLOCK FALSE
