SPECIFICATION Spec
CONSTANT D = 2
INVARIANT Inv
INVARIANT FailedUnchanged
INVARIANT Emit
VIEW TabView
CHECK_DEADLOCK FALSE
