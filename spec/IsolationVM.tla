----------------------------- MODULE IsolationVM -----------------------------
(* C14, part 2: per-interpreter state. Every field of the VM that a program can change - the      *)
(* clause database (assert, consult, dynamic declarations), operators, flags, character           *)
(* conversions, the stream table (aliases), current input and output - belongs to one interpreter: *)
(* an action of interpreter i changes vm[i] only. The generated cases are histories of N          *)
(* state-changing directives on interpreters A and B followed by the observation of every field   *)
(* on both: a field shows the mutation iff that very interpreter performed it.                     *)
EXTENDS Integers, Sequences, FiniteSets, TLC, Json
CONSTANT N
VMs == {"A", "B"}
Fields == {"clauses", "consulted", "dynamic", "ops", "double_quotes", "unknown", "debug", "char_conv_flag", "char_conv", "alias", "output", "input", "std_input",
           "ops_read"}     \* an operator of its own, observed through what the READER makes of a query text (double_quotes is observed that way, too)   \* std_input: an interpreter closes ITS standard input
VARIABLES vm, hist, done
vars == <<vm, hist, done>>
Init == vm = [i \in VMs |-> [f \in Fields |-> "init"]] /\ hist = <<>> /\ done = FALSE
Mutate(i, f) == /\ ~done /\ Len(hist) < N
                /\ vm' = [vm EXCEPT ![i][f] = "mut"]
                /\ hist' = Append(hist, [vm |-> i, field |-> f]) /\ UNCHANGED done
Finish == ~done /\ Len(hist) = N /\ done' = TRUE /\ UNCHANGED <<vm, hist>>
Next == Finish \/ \E i \in VMs, f \in Fields : Mutate(i, f)
Spec == Init /\ [][Next]_vars
\* an action of one interpreter leaves every other interpreter untouched
Isolated == [][\A j \in VMs : (hist' # hist /\ hist'[Len(hist')].vm # j) => vm'[j] = vm[j]]_vars
Emit == done => PrintT("CASE " \o ToJson([hist |-> hist, sees |-> vm]))
=============================================================================
