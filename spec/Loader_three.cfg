SPECIFICATION Spec
CONSTANTS NT = 3
          N1 = 1
          N2 = 2
          N3 = 2
INVARIANT Invisible
INVARIANT SourceOrder
INVARIANT ReplaceUnlessMultifile
INVARIANT Emit
PROPERTY AllOrNothing
PROPERTY DirectivesInPlace
CHECK_DEADLOCK FALSE
