SPECIFICATION Spec
CONSTANTS N = 5
          NI = 2
          KINDSET = "few"
INVARIANT TrueCount
INVARIANT NoTrueAfterFalse
INVARIANT CloseOnceNil
INVARIANT BoundedByKind
INVARIANT Emit
PROPERTY Independent
CHECK_DEADLOCK FALSE
