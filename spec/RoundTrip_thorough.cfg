SPECIFICATION Spec
CONSTANTS DEPTH = 2
          ALLCOMBOS = TRUE
INVARIANT Emit
CHECK_DEADLOCK FALSE
