SPECIFICATION GSpec
CONSTANTS N = 2
          DOUBLE = TRUE
          ARITY0 = TRUE
CHECK_DEADLOCK FALSE
INVARIANT Emit
INVARIANT IdsUnique
PROPERTY LUV
PROPERTY DbStep
CONSTRAINT Bound
