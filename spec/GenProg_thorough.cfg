SPECIFICATION GSpec
CONSTANTS NP = 2
          NQ = 2
          NR = 1
          NQUERY = 8
CHECK_DEADLOCK FALSE
INVARIANT Emit
CONSTRAINT Bound
