------------------------------ MODULE GenProg ------------------------------
(* C01 (U2): every program built from clause pools for p/1, q/1, r/2 (facts with atom, repeated   *)
(* variable, f(X), [H|T] arguments; rules with one or two body goals; direct and mutual recursion *)
(* guarded by structure; a nested and a top-level disjunction; call/1, call/2) x a set of queries. *)
EXTENDS Engine, Json
X == V(1)
Y == V(2)
Z == V(3)
P(t) == C("p", <<t>>)
Q(t) == C("q", <<t>>)
R(s, t) == C("r", <<s, t>>)
a == A("a")
b == A("b")
F(t) == C("f", <<t>>)
Conj2(s, t) == C(",", <<s, t>>)
Cl(h, bd) == [head |-> h, body |-> bd]
PoolP == { Cl(P(a), TrueA), Cl(P(X), Q(X)), Cl(P(F(X)), Q(X)), Cl(P(X), Conj2(R(X, Y), Q(Y))), Cl(P(Cons(X, Y)), Conj2(Q(X), P(Y))), Cl(P(Nil), TrueA),
           Cl(P(X), C(";", <<Q(X), R(X, Y)>>)), Cl(P(X), C("call", <<A("q"), X>>)), Cl(P(F(X)), P(X)), Cl(P(X), Conj2(C(";", <<C("=", <<X, b>>), Q(X)>>), R(X, Z))) }
PoolQ == { Cl(Q(a), TrueA), Cl(Q(b), TrueA), Cl(Q(X), R(X, X)), Cl(Q(F(Y)), TrueA), Cl(Q(X), C("call", <<R(X, b)>>)) }
PoolR == { Cl(R(a, b), TrueA), Cl(R(X, X), TrueA), Cl(R(b, F(X)), TrueA), Cl(R(X, Y), Conj2(Q(Y), C("=", <<X, Y>>))), Cl(R(Cons(X, Y), X), TrueA) }
Queries == << P(X), Q(X), R(X, Y), Conj2(P(X), Q(X)), P(F(Z)), P(Cons(a, Cons(X, Nil))), R(X, X), Conj2(R(X, Y), P(Y)) >>

CONSTANTS NP, NQ, NR, NQUERY
Seqs(S, n) == UNION { [1..k -> S] : k \in 0..n }
MkCls(cs, base) == [i \in 1..Len(cs) |->
                      LET t == C(":-", <<cs[i].head, cs[i].body>>) vs == TermVars(t) r == Renum(t, vs, 0)
                      IN [id |-> base + i, head |-> r[3][1], body |-> r[3][2], nv |-> Len(vs)]]
\* a predicate without clauses is not part of the program text at all (calling it raises existence_error)
Db(ps, qs, rs) == SelectSeq(<< [key |-> <<"p", 1>>, dyn |-> FALSE, cls |-> MkCls(ps, 0)],
                               [key |-> <<"q", 1>>, dyn |-> FALSE, cls |-> MkCls(qs, 10)],
                               [key |-> <<"r", 2>>, dyn |-> FALSE, cls |-> MkCls(rs, 20)] >>, LAMBDA p : p.cls # <<>>)

VARIABLES st, hist, ps, qs, rs, qi
gvars == <<st, hist, ps, qs, rs, qi>>
GInit == /\ ps \in Seqs(PoolP, NP) /\ qs \in Seqs(PoolQ, NQ) /\ rs \in Seqs(PoolR, NR) /\ qi \in 1..NQUERY
         /\ st = InitState(Db(ps, qs, rs), Queries[qi], 3)
         /\ hist = <<>>
GNext == /\ ~Terminal(st)
         /\ \E t \in Steps(st) : /\ ~(st.status = "answer" /\ t.status = "closed")
                                 /\ st' = t
                                 /\ hist' = IF t.ev # NoEv THEN Append(hist, t.ev) ELSE hist
         /\ UNCHANGED <<ps, qs, rs, qi>>
GSpec == GInit /\ [][GNext]_gvars
Emit == Judged(st) => PrintT("CASE " \o ToJson([db |-> Db(ps, qs, rs), query |-> Queries[qi], qv |-> 3, events |-> hist]))
\* runs that do not terminate within the bound are cut off (no case is emitted for them)
Bound == Len(hist) < 40 /\ Len(st.bind) < 120

\* --- U1 ---
\* fresh variables: a resolution step only ever extends the store, and the new slots start unbound or bound by this very step
StoreGrows == [][Len(st'.bind) >= Len(st.bind) \/ st'.goals = <<>> \/ st'.goals[1].g = FailA \/
                 \E i \in 1..Len(st.cps) : st'.bind = st.cps[i].bind \/ Len(st'.bind) >= Len(st.cps[i].bind)]_gvars
=============================================================================
