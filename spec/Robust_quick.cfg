SPECIFICATION Spec
CONSTANTS NT = 3
          SMALLSHAPES = TRUE
INVARIANT Emit
CHECK_DEADLOCK FALSE
