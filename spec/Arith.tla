-------------------------------- MODULE Arith --------------------------------
(* C07 (integers): the exact meaning of every integer evaluable functor over BigInt.tla and the    *)
(* 64-bit range rule: the mathematically exact result if it lies in [-2^63, 2^63 - 1], otherwise   *)
(* evaluation_error(int_overflow); zero_divisor for a zero divisor; // truncates, div floors, mod   *)
(* has the sign of the divisor, rem of the dividend; ^ is exact; shifts by 0..63 are multiplication *)
(* / flooring division by 2^n when the exact result fits (other shifts are left open, as in the    *)
(* statement); bit operations act on 64-bit two's complement. Comparisons are on the exact values. *)
(* The boundary grid is enumerated completely for every unary and binary functor.                   *)
EXTENDS BigInt, Json
P(k) == Pow2(k)
M(x) == Neg(x)
Around(x) == <<Dec(x), x, Inc(x)>>
Pos == <<FromInt(1), FromInt(2), FromInt(3), FromInt(7)>> \o Around(P(31)) \o Around(P(32)) \o Around(P(53)) \o Around(P(62))
       \o <<Sub(Max64, FromInt(2)), Dec(Max64), Max64>>
Grid == <<Zero>> \o Pos \o [i \in 1..Len(Pos) |-> M(Pos[i])] \o <<Min64, Inc(Min64), Add(Min64, FromInt(2))>>
Small == <<Zero, FromInt(1), FromInt(2), FromInt(3), FromInt(-1), FromInt(-2), FromInt(-3), FromInt(7), FromInt(10), P(31), P(32), M(P(31)), Dec(P(32))>>
Counts == <<FromInt(0), FromInt(1), FromInt(2), FromInt(31), FromInt(32), FromInt(61), FromInt(62), FromInt(63), FromInt(64), FromInt(-1)>>
Unary == {"-", "abs", "sign", "\\", "+"}
Binary == {"+", "-", "*", "//", "div", "mod", "rem", "min", "max", "/\\", "\\/", "xor"}
Compare == {"=:=", "=\\=", "<", "=<", ">", ">="}

IntR(v) == IF InRange(v) THEN [kind |-> "int", v |-> v] ELSE [kind |-> "err", e |-> "int_overflow"]
ErrR(e) == [kind |-> "err", e |-> e]
Open == [kind |-> "open"]
BoolR(b) == [kind |-> "bool", v |-> b]
One == FromInt(1)
Eval1(op, x) == CASE op = "-" -> IntR(Neg(x)) [] op = "+" -> IntR(x) [] op = "abs" -> IntR(Abs(x)) [] op = "sign" -> IntR(FromInt(Sign(x))) [] op = "\\" -> IntR(BitNot(x))
Eval2(op, x, y) ==
  CASE op = "+" -> IntR(Add(x, y)) [] op = "-" -> IntR(Sub(x, y)) [] op = "*" -> IntR(Mul(x, y))
    [] op = "//" -> IF IsZero(y) THEN ErrR("zero_divisor") ELSE IntR(QuoT(x, y))
    [] op = "div" -> IF IsZero(y) THEN ErrR("zero_divisor") ELSE IntR(DivF(x, y))
    [] op = "mod" -> IF IsZero(y) THEN ErrR("zero_divisor") ELSE IntR(ModF(x, y))
    [] op = "rem" -> IF IsZero(y) THEN ErrR("zero_divisor") ELSE IntR(RemT(x, y))
    [] op = "min" -> IntR(IF Cmp(x, y) <= 0 THEN x ELSE y) [] op = "max" -> IntR(IF Cmp(x, y) >= 0 THEN x ELSE y)
    [] op = "/\\" -> IntR(BitAnd(x, y)) [] op = "\\/" -> IntR(BitOr(x, y)) [] op = "xor" -> IntR(BitXor(x, y))
    [] op = "^" -> IF y.neg THEN (IF x = One THEN IntR(One) ELSE IF x = Neg(One) THEN IntR(IF HalfMag(y.mag).r = 0 THEN One ELSE Neg(One)) ELSE Open)
                   ELSE IF IsZero(y) THEN IntR(One)
                   ELSE IF IsZero(x) \/ x = One THEN IntR(x)
                   ELSE IF x = Neg(One) THEN IntR(IF HalfMag(y.mag).r = 0 THEN One ELSE Neg(One))
                   ELSE IF Cmp(y, FromInt(64)) > 0 THEN ErrR("int_overflow")
                   ELSE IntR(PowNat(x, ToInt(y), P(64)))
    [] op = "<<" -> IF y.neg \/ Cmp(y, FromInt(63)) > 0 THEN Open
                    ELSE LET r == Mul(x, P(ToInt(y))) IN IF InRange(r) THEN IntR(r) ELSE Open          \* overflowing shifts are left open
    [] op = ">>" -> IF y.neg \/ Cmp(y, FromInt(63)) > 0 THEN Open ELSE IntR(DivF(x, P(ToInt(y))))
    [] op \in Compare -> LET c == Cmp(x, y) IN
         BoolR(CASE op = "=:=" -> c = 0 [] op = "=\\=" -> c # 0 [] op = "<" -> c < 0 [] op = "=<" -> c <= 0 [] op = ">" -> c > 0 [] op = ">=" -> c >= 0)

CONSTANT SUBGRID       \* TRUE: every second grid value as right operand (quick)
\* a case family: "u" unary x Grid; "b" binary x Grid x Grid; "c" comparisons; "p" powers; "s" shifts
VARIABLES fam, op, xi, yi, done
vars == <<fam, op, xi, yi, done>>
Xs(f) == CASE f \in {"u", "b", "c", "s"} -> Grid [] f = "p" -> Small
Ys(f) == CASE f = "u" -> <<Zero>> [] f \in {"b", "c"} -> Grid [] f = "p" -> Counts \o <<FromInt(3), FromInt(5), Max64>> [] f = "s" -> Counts
Ops(f) == CASE f = "u" -> Unary [] f = "b" -> Binary [] f = "c" -> Compare [] f = "p" -> {"^"} [] f = "s" -> {"<<", ">>"}
Init == /\ fam \in {"u", "b", "c", "p", "s"} /\ op \in Ops(fam) /\ xi \in 1..Len(Xs(fam)) /\ yi = 0 /\ done = FALSE
Next == /\ ~done /\ done' = TRUE
        /\ yi' \in { j \in 1..Len(Ys(fam)) : ~SUBGRID \/ fam \notin {"b", "c"} \/ (j + xi) % 3 = 0 \/ j = xi }
        /\ UNCHANGED <<fam, op, xi>>
Spec == Init /\ [][Next]_vars
X == Xs(fam)[xi]
Y == Ys(fam)[yi]
Outcome == IF fam = "u" THEN Eval1(op, X) ELSE Eval2(op, X, Y)
Emit == done => PrintT("CASE " \o ToJson([fam |-> fam, op |-> op, x |-> X, y |-> Y, out |-> Outcome]))
\* --- U1: laws on the grid ---
DivLaw == (done /\ fam = "b" /\ op = "//" /\ ~IsZero(Y)) => Add(Mul(QuoT(X, Y), Y), RemT(X, Y)) = X
FloorLaw == (done /\ fam = "b" /\ op = "div" /\ ~IsZero(Y)) => (Add(Mul(DivF(X, Y), Y), ModF(X, Y)) = X /\ (IsZero(ModF(X, Y)) \/ ModF(X, Y).neg = Y.neg))
InRangeOrErr == done => (Outcome.kind = "int" => InRange(Outcome.v))
=============================================================================
