------------------------------ MODULE BigIntMC ------------------------------
(* U1 for C07: the limb library agrees with TLC's native arithmetic on all operands in -R..R,   *)
(* and the division / bit-operation laws hold on boundary values.                               *)
EXTENDS BigInt
CONSTANT R
VARIABLES x, y, done
\* x is chosen by the initial states, y by the first step: the invariants are then evaluated by all workers
Init == x \in -R..R /\ y = 0 /\ done = FALSE
Next == ~done /\ done' = TRUE /\ y' \in -R..R /\ UNCHANGED x
Spec == Init /\ [][Next]_<<x, y, done>>
X == FromInt(x * 257)
Y == FromInt(y * 263 + 1)
TQ(a, b) == IF (a < 0) = (b < 0) THEN (IF a < 0 THEN (-a) \div (-b) ELSE a \div b) ELSE -((IF a < 0 THEN -a ELSE a) \div (IF b < 0 THEN -b ELSE b))
Agree == ~done \/
         /\ ToInt(Add(X, Y)) = x * 257 + (y * 263 + 1)
         /\ ToInt(Sub(X, Y)) = x * 257 - (y * 263 + 1)
         /\ ToInt(Mul(FromInt(x), FromInt(y))) = x * y
         /\ Cmp(X, Y) = (IF x * 257 < y * 263 + 1 THEN -1 ELSE IF x * 257 > y * 263 + 1 THEN 1 ELSE 0)
         /\ ToInt(QuoT(X, Y)) = TQ(x * 257, y * 263 + 1)
         /\ ToInt(DivF(X, Y)) = (x * 257) \div (y * 263 + 1)
         /\ (y * 263 + 1 > 0 => ToInt(ModF(X, Y)) = (x * 257) % (y * 263 + 1))
         /\ Add(Mul(QuoT(X, Y), Y), RemT(X, Y)) = X
         /\ Add(Mul(DivF(X, Y), Y), ModF(X, Y)) = X
         /\ (IsZero(ModF(X, Y)) \/ ModF(X, Y).neg = Y.neg)
         /\ (IsZero(RemT(X, Y)) \/ RemT(X, Y).neg = X.neg)
Big == Mul(Pow2(40), X)
BitLaws == ~done \/ x % 7 # 0 \/ y % 5 # 0 \/
           /\ FromBits64(Bits64(Big)) = Big
           /\ BitAnd(Big, Big) = Big /\ BitOr(Big, Zero) = Big /\ BitXor(Big, Big) = Zero
           /\ BitNot(BitNot(Big)) = Big
           /\ Add(BitAnd(Big, Y), BitOr(Big, Y)) = Add(Big, Y)
           /\ Add(Mul(QuoT(Big, Y), Y), RemT(Big, Y)) = Big
=============================================================================
