SPECIFICATION Spec
CONSTANT NS = 4
INVARIANT Emit
INVARIANT Shape
CHECK_DEADLOCK FALSE
