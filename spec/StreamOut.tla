------------------------------ MODULE StreamOut ------------------------------
(* C19, output side: a sink is an append-only sequence of characters. Every output operation     *)
(* appends its text to the sink it addresses - the host-provided user_output or a file opened     *)
(* by open/4 - and to no other; what reaches a sink is the concatenation of what was written to   *)
(* it, in program order, complete (after close/flush for the file).                               *)
EXTENDS Integers, Sequences, TLC, Json
Sinks == {"user", "file"}
\* operations and the text they produce ("E" a 2-byte character)
Ops == { <<"put_char", <<"a">> >>, <<"put_char", <<"E">> >>, <<"nl", <<"\n">> >>, <<"write", <<"a", "b">> >>, <<"write", <<"4", "2">> >>,
         <<"writeq", <<"'", "A", " ", "b", "'">> >>, <<"print_list", <<"[", "a", ",", "b", "]">> >> }
CONSTANT N
VARIABLES sink, hist
Init == sink = [s \in Sinks |-> <<>>] /\ hist = <<>>
Do(s, o) == /\ sink' = [sink EXCEPT ![s] = @ \o o[2]]
            /\ hist' = Append(hist, [sink |-> s, op |-> o[1], text |-> o[2]])
Next == Len(hist) < N /\ \E s \in Sinks, o \in Ops : Do(s, o)
Spec == Init /\ [][Next]_<<sink, hist>>
\* an operation touches only its own sink, and a sink only ever grows at its end
OwnSinkOnly == [][\A s \in Sinks : (hist' # hist /\ hist'[Len(hist')].sink # s) => sink'[s] = sink[s]]_<<sink, hist>>
Prefix == [][\A s \in Sinks : Len(sink'[s]) >= Len(sink[s]) /\ SubSeq(sink'[s], 1, Len(sink[s])) = sink[s]]_<<sink, hist>>
Emit == Len(hist) = N => PrintT("CASE " \o ToJson([hist |-> hist, user |-> sink["user"], file |-> sink["file"]]))
=============================================================================
