------------------------------ MODULE GenDisj ------------------------------
(* C01/C03: every way of nesting a disjunction of three or four alternatives - all bracketings, ((a;b);c);d as well as      *)
(* a;(b;(c;d)) - in every placement: as a clause body, before another goal of a body, under call/1, as a goal bound at      *)
(* run time, as the query itself and under findall/3. One alternative at a time is replaced by a nondeterministic goal,     *)
(* by fail, or by an if-then-else whose condition succeeds (twice) or fails: the alternatives must be tried in order, each   *)
(* exactly once, 'else' iff the condition has no answer, whatever the bracketing.                                            *)
EXTENDS Engine, Json
X == V(1)
G(t) == C("g", <<t>>)
E(k) == C("=", <<X, A(k)>>)
Conj2(a, b) == C(",", <<a, b>>)
Specials == { G(X), A("fail"),
              C(";", <<C("->", <<G(X), A("true")>>), E("else")>>),            \* (g(X) -> true ; X = else)
              C(";", <<C("->", <<A("fail"), E("then")>>), E("else")>>) }        \* (fail -> X = then ; X = else)
Base(n) == [i \in 1..n |-> E(CASE i = 1 -> "l1" [] i = 2 -> "l2" [] i = 3 -> "l3" [] i = 4 -> "l4")]
LeafSeqs(n) == {Base(n)} \cup { [Base(n) EXCEPT ![i] = s] : i \in 1..n, s \in Specials }
RECURSIVE Trees(_)
Trees(s) == IF Len(s) = 1 THEN {s[1]}
            ELSE UNION { { C(";", <<l, r>>) : l \in Trees(SubSeq(s, 1, k)), r \in Trees(SubSeq(s, k + 1, Len(s))) } : k \in 1..(Len(s) - 1) }
Disjs == UNION { Trees(s) : s \in LeafSeqs(3) \cup LeafSeqs(4) }
Placements == {"body", "before", "call", "var", "query", "findall"}
P == C("p", <<X>>)
PBody(d, pl) == CASE pl = "body" -> d [] pl = "before" -> Conj2(d, C("w", <<X>>)) [] pl = "call" -> C("call", <<d>>)
                  [] pl = "var" -> Conj2(C("=", <<V(2), d>>), V(2)) [] OTHER -> A("true")
Db(d, pl) == << [key |-> <<"g", 1>>, dyn |-> FALSE, cls |-> << [id |-> 1, head |-> G(A("a")), body |-> TrueA, nv |-> 0],
                                                             [id |-> 2, head |-> G(A("b")), body |-> TrueA, nv |-> 0] >>],
                [key |-> <<"w", 1>>, dyn |-> FALSE, cls |-> << [id |-> 3, head |-> C("w", <<V(1)>>), body |-> TrueA, nv |-> 1] >>],
                [key |-> <<"p", 1>>, dyn |-> FALSE, cls |-> << [id |-> 4, head |-> P, body |-> PBody(d, pl), nv |-> 2],
                                                             [id |-> 5, head |-> C("p", <<A("z")>>), body |-> TrueA, nv |-> 0] >>] >>
Query(d, pl) == CASE pl = "query" -> d [] pl = "findall" -> C("findall", <<X, d, V(2)>>) [] OTHER -> P
VARIABLES st, hist, d, pl
gvars == <<st, hist, d, pl>>
GInit == /\ d \in Disjs /\ pl \in Placements
         /\ st = InitState(Db(d, pl), Query(d, pl), 2)
         /\ hist = <<>>
GNext == /\ ~Terminal(st)
         /\ \E t \in Steps(st) : /\ ~(st.status = "answer" /\ t.status = "closed")
                                 /\ st' = t
                                 /\ hist' = IF t.ev # NoEv THEN Append(hist, t.ev) ELSE hist
         /\ UNCHANGED <<d, pl>>
GSpec == GInit /\ [][GNext]_gvars
Emit == Judged(st) => PrintT("CASE " \o ToJson([db |-> Db(d, pl), query |-> Query(d, pl), qv |-> 2, events |-> hist]))
Bound == Len(hist) < 60 /\ Len(st.bind) < 200
=============================================================================
