SPECIFICATION Spec
CONSTANTS NT = 0
          N1 = 2
          N2 = 3
          PAIR = FALSE
          N3 = 0
INVARIANT Invisible
INVARIANT SourceOrder
INVARIANT ReplaceUnlessMultifile
INVARIANT Emit
PROPERTY AllOrNothing
PROPERTY DirectivesInPlace
CHECK_DEADLOCK FALSE
