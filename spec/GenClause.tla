------------------------------ MODULE GenClause ------------------------------
(* C10 (behaviour): every clause of a pool - heads and bodies with atoms, numbers, lists, nested   *)
(* compounds, repeated variables, a variable K bound in the calling environment BEFORE the clause   *)
(* is added, a variable M bound AFTER it, a variable goal, cut, a top-level disjunction,            *)
(* if-then-else, \+, call/N - is added to the dynamic predicate t/2 through both paths:             *)
(*   "consult": the program text contains the clause (with the bindings in force applied)           *)
(*   "assertz": K = k, G = q(X), assertz(Clause), M = m, ...   in one conjunction                   *)
(* and then observed: the clause/2 listing (inside the same conjunction, after M was bound: the     *)
(* stored clause is a renamed copy), the answers of a probe call, retract/1 of the clause. The      *)
(* events Engine.tla predicts are the same for both paths by construction; the real interpreter     *)
(* must reproduce them on both.                                                                     *)
(*   "init": as "consult", and the observing query is an initialization goal of the SAME text that   *)
(* first binds the variables named like the clause's (V1, V2, V3): the variables of a clause are     *)
(* local to it, also for the rest of its text (F27). Replayed with the option directive.             *)
EXTENDS Engine, Json
CONSTANT MODES
X == V(11)
Y == V(12)
K == V(9)         \* bound to k before the clause is added
M == V(8)         \* bound to m after the clause was added: must not reach the stored clause
G == V(13)        \* bound to q(X) before the clause is added: a variable goal
T2(s, t) == C("t", <<s, t>>)
Conj2(s, t) == C(",", <<s, t>>)
RECURSIVE Conj(_)
Conj(s) == IF Len(s) = 1 THEN s[1] ELSE Conj2(s[1], Conj(Tail(s)))
RECURSIVE Disj(_)
Disj(s) == IF Len(s) = 1 THEN s[1] ELSE C(";", <<s[1], Disj(Tail(s))>>)
a == A("a")
Q(t) == C("q", <<t>>)
R(t) == C("r", <<t>>)
Heads == { T2(X, a), T2(X, X), T2(C("f", <<X>>), Cons(X, Y)), T2(MkList(<<a, A("b")>>), Y), T2(K, M), T2(C("g", <<K, X>>), MkList(<<K>>)), T2(I(1), X), T2(Y, MkList(<<X, Y, X>>)), T2(a, I(1)) }
Bodies == { TrueA, Q(X), Conj2(Q(X), R(X)), Conj2(Q(X), A("!")), Conj2(A("!"), Q(X)), C(";", <<Q(X), R(X)>>), C(";", <<C("->", <<Q(X), R(Y)>>), C("=", <<Y, A("z")>>)>>),
            C("\\+", <<Q(X)>>), C("=", <<X, K>>), C("call", <<A("q"), X>>), G, Conj2(G, R(X)), Conj2(Conj2(Q(X), A("!")), R(Y)), C("=", <<M, X>>),
            \* variables that occur in a later alternative only (each alternative is compiled as a clause of its own)
            C(";", <<Q(a), C("=", <<M, A("z")>>)>>), C(";", <<FailA, Q(M)>>), C(";", <<Q(a), C(";", <<R(A("b")), C("=", <<M, X>>)>>)>>) }
Pre == [i \in 1..13 |-> IF i = 9 THEN A("k") ELSE IF i = 13 THEN Q(X) ELSE U]

Helpers == << [key |-> <<"q", 1>>, dyn |-> FALSE, cls |-> << [id |-> 1, head |-> Q(a), body |-> TrueA, nv |-> 0], [id |-> 2, head |-> Q(A("b")), body |-> TrueA, nv |-> 0] >>],
              [key |-> <<"r", 1>>, dyn |-> FALSE, cls |-> << [id |-> 3, head |-> R(A("b")), body |-> TrueA, nv |-> 0], [id |-> 4, head |-> R(A("c")), body |-> TrueA, nv |-> 0] >>],
              [key |-> <<"w", 1>>, dyn |-> FALSE, cls |-> << [id |-> 5, head |-> C("w", <<V(1)>>), body |-> TrueA, nv |-> 1] >>] >>
ClauseT(h, b) == IF b = TrueA THEN h ELSE C(":-", <<h, b>>)
Db(mode, h, b) == Helpers \o << [key |-> <<"t", 2>>, dyn |-> TRUE,
                                 cls |-> IF mode \in {"consult", "init"} THEN << MkClause(ClauseT(h, b), Pre, 6) >> ELSE <<>>] >>
O(i) == V(20 + i)   \* (observation variables that no clause of the text has a variable named like)
Query(mode, h, b) ==
  Disj(<< Conj(<< C("=", <<K, A("k")>>), C("=", <<G, Q(X)>>), (IF mode = "assertz" THEN C("assertz", <<ClauseT(h, b)>>) ELSE TrueA), C("=", <<M, A("m")>>),
                  (IF mode = "init" THEN Conj(<< C("=", <<V(1), A("u1")>>), C("=", <<V(2), A("u2")>>), C("=", <<V(3), A("u3")>>) >>) ELSE TrueA),
                  C("clause", <<T2(O(1), O(2)), O(3)>>), C("w", <<C("cl", <<O(1), O(2), O(3)>>)>>),
                  (IF mode = "init" THEN Conj(<< T2(O(4), O(5)), C("w", <<C("ans", <<O(4), O(5)>>)>>), FailA >>) ELSE FailA) >>),
          Conj(<< T2(V(4), V(5)), C("w", <<C("ans", <<V(4), V(5)>>)>>), FailA >>),
          Conj(<< C("retract", <<C(":-", <<T2(V(6), V(7)), V(10)>>)>>), C("w", <<C("ret", <<V(6), V(7), V(10)>>)>>), FailA >>),
          Conj(<< C("\\+", <<C("clause", <<T2(V(1), V(2)), V(3)>>)>>), C("w", <<A("gone")>>) >>) >>)

VARIABLES st, hist, mode, h, b
gvars == <<st, hist, mode, h, b>>
GInit == /\ mode \in MODES /\ h \in Heads /\ b \in Bodies
         /\ st = InitStateX(Db(mode, h, b), Query(mode, h, b), 0, 25)
         /\ hist = <<>>
GNext == /\ ~Terminal(st)
         /\ \E t \in Steps(st) : /\ ~(st.status = "answer" /\ t.status = "closed")
                                 /\ st' = t
                                 /\ hist' = IF t.ev # NoEv THEN Append(hist, t.ev) ELSE hist
         /\ UNCHANGED <<mode, h, b>>
GSpec == GInit /\ [][GNext]_gvars
Emit == Judged(st) => PrintT("CASE " \o ToJson([db |-> Db(mode, h, b), query |-> Query(mode, h, b), qv |-> 0, events |-> hist, mode |-> mode]))
Bound == Len(hist) < 80 /\ Len(st.bind) < 400
=============================================================================
