SPECIFICATION Spec
CONSTANTS UseLock = FALSE
          AtomicAdd = TRUE
          NG = 2
INVARIANT Interned
INVARIANT TableOK
INVARIANT NoTornRead
INVARIANT VarsOnce
CHECK_DEADLOCK FALSE
