------------------------------- MODULE BigInt -------------------------------
(* Exact integer arithmetic beyond TLC's 32-bit integers, for C07.                              *)
(* A big integer is [neg |-> BOOLEAN, mag |-> limbs], limbs a sequence of base-10000 digits,    *)
(* least significant first, without leading zeros; zero is [neg |-> FALSE, mag |-> <<>>].       *)
EXTENDS Integers, Sequences, TLC
B == 10000
Zero == [neg |-> FALSE, mag |-> <<>>]
RECURSIVE Strip(_)
Strip(m) == IF m # <<>> /\ m[Len(m)] = 0 THEN Strip(SubSeq(m, 1, Len(m) - 1)) ELSE m
Mk(neg, m) == LET s == Strip(m) IN [neg |-> neg /\ s # <<>>, mag |-> s]
RECURSIVE MagOf(_)
MagOf(n) == IF n = 0 THEN <<>> ELSE <<n % B>> \o MagOf(n \div B)          \* n >= 0
FromInt(n) == IF n < 0 THEN Mk(TRUE, MagOf(-n)) ELSE Mk(FALSE, MagOf(n))   \* |n| < 2^31
IsZero(x) == x.mag = <<>>
Neg(x) == Mk(~x.neg, x.mag)
Abs(x) == Mk(FALSE, x.mag)
Sign(x) == IF IsZero(x) THEN 0 ELSE IF x.neg THEN -1 ELSE 1

\* magnitudes
RECURSIVE CmpMagFrom(_,_,_)
CmpMagFrom(a, b, i) == IF i = 0 THEN 0 ELSE IF a[i] < b[i] THEN -1 ELSE IF a[i] > b[i] THEN 1 ELSE CmpMagFrom(a, b, i - 1)
CmpMag(a, b) == IF Len(a) < Len(b) THEN -1 ELSE IF Len(a) > Len(b) THEN 1 ELSE CmpMagFrom(a, b, Len(a))
Limb(a, i) == IF i <= Len(a) THEN a[i] ELSE 0
RECURSIVE AddMagFrom(_,_,_,_)
AddMagFrom(a, b, i, carry) ==
  IF i > Len(a) /\ i > Len(b) THEN (IF carry = 0 THEN <<>> ELSE <<carry>>)
  ELSE LET s == Limb(a, i) + Limb(b, i) + carry IN <<s % B>> \o AddMagFrom(a, b, i + 1, s \div B)
AddMag(a, b) == AddMagFrom(a, b, 1, 0)
RECURSIVE SubMagFrom(_,_,_,_)
SubMagFrom(a, b, i, borrow) ==        \* a >= b
  IF i > Len(a) THEN <<>>
  ELSE LET d == a[i] - Limb(b, i) - borrow IN
       IF d < 0 THEN <<d + B>> \o SubMagFrom(a, b, i + 1, 1) ELSE <<d>> \o SubMagFrom(a, b, i + 1, 0)
SubMag(a, b) == Strip(SubMagFrom(a, b, 1, 0))
RECURSIVE MulLimbFrom(_,_,_,_)
MulLimbFrom(a, d, i, carry) ==
  IF i > Len(a) THEN (IF carry = 0 THEN <<>> ELSE <<carry>>)
  ELSE LET p == a[i] * d + carry IN <<p % B>> \o MulLimbFrom(a, d, i + 1, p \div B)
RECURSIVE MulMagFrom(_,_,_)
MulMagFrom(a, b, j) == IF j > Len(b) THEN <<>>
                       ELSE AddMag([k \in 1..(j - 1) |-> 0] \o MulLimbFrom(a, b[j], 1, 0), MulMagFrom(a, b, j + 1))
MulMag(a, b) == Strip(MulMagFrom(a, b, 1))
\* halving: [q, r]
RECURSIVE HalfFrom(_,_,_)
HalfFrom(a, i, rem) == IF i = 0 THEN [q |-> <<>>, r |-> rem]
                       ELSE LET cur == rem * B + a[i] rest == HalfFrom(a, i - 1, cur % 2) IN [q |-> Append(rest.q, cur \div 2), r |-> rest.r]
HalfMag(a) == LET h == HalfFrom(a, Len(a), 0) IN [q |-> Strip(h.q), r |-> h.r]
DoubleMag(a) == AddMag(a, a)

\* signed
Cmp(x, y) == IF x.neg # y.neg THEN (IF x.neg THEN -1 ELSE 1)
             ELSE IF x.neg THEN CmpMag(y.mag, x.mag) ELSE CmpMag(x.mag, y.mag)
Add(x, y) == IF x.neg = y.neg THEN Mk(x.neg, AddMag(x.mag, y.mag))
             ELSE IF CmpMag(x.mag, y.mag) >= 0 THEN Mk(x.neg, SubMag(x.mag, y.mag)) ELSE Mk(y.neg, SubMag(y.mag, x.mag))
Sub(x, y) == Add(x, Neg(y))
Mul(x, y) == Mk(x.neg # y.neg, MulMag(x.mag, y.mag))
Inc(x) == Add(x, FromInt(1))
Dec(x) == Sub(x, FromInt(1))
RECURSIVE Pow2(_)
Pow2(k) == IF k = 0 THEN FromInt(1) ELSE LET h == Pow2(k - 1) IN Mk(FALSE, DoubleMag(h.mag))

\* division of magnitudes by binary long division: [q, r] with a = q * b + r, 0 <= r < b   (b # 0)
RECURSIVE BitsOf(_)
BitsOf(a) == IF a = <<>> THEN <<>> ELSE LET h == HalfMag(a) IN Append(BitsOf(h.q), h.r)          \* most significant first
RECURSIVE DivBits(_,_,_,_)
DivBits(bits, b, q, r) ==
  IF bits = <<>> THEN [q |-> q, r |-> r]
  ELSE LET r2 == AddMag(DoubleMag(r), IF bits[1] = 1 THEN <<1>> ELSE <<>>)
           ge == CmpMag(Strip(r2), b) >= 0
       IN DivBits(Tail(bits), b, AddMag(DoubleMag(q), IF ge THEN <<1>> ELSE <<>>), IF ge THEN SubMag(Strip(r2), b) ELSE Strip(r2))
DivModMag(a, b) == LET d == DivBits(BitsOf(a), b, <<>>, <<>>) IN [q |-> Strip(d.q), r |-> Strip(d.r)]
\* truncating division (//) and remainder (rem): sign of the dividend
QuoT(x, y) == Mk(x.neg # y.neg, DivModMag(x.mag, y.mag).q)
RemT(x, y) == Mk(x.neg, DivModMag(x.mag, y.mag).r)
\* flooring division (div) and modulo (mod): sign of the divisor
DivF(x, y) == LET q == QuoT(x, y) r == RemT(x, y) IN IF ~IsZero(r) /\ (r.neg # y.neg) THEN Dec(q) ELSE q
ModF(x, y) == LET r == RemT(x, y) IN IF ~IsZero(r) /\ (r.neg # y.neg) THEN Add(r, y) ELSE r
RECURSIVE PowNat(_,_,_)
\* x^n for n >= 0, giving up (result "big") as soon as the magnitude exceeds limit
PowNat(x, n, limit) == IF n = 0 THEN FromInt(1)
                       ELSE LET p == PowNat(x, n - 1, limit) IN
                            IF CmpMag(p.mag, limit.mag) > 0 THEN p ELSE Mul(p, x)

\* 64-bit two's complement
Min64 == Neg(Pow2(63))
Max64 == Dec(Pow2(63))
InRange(x) == Cmp(x, Min64) >= 0 /\ Cmp(x, Max64) <= 0
Mod64(x) == ModF(x, Pow2(64))                                            \* 0 .. 2^64-1
RECURSIVE PadBits(_,_)
PadBits(bs, n) == IF Len(bs) >= n THEN SubSeq(bs, Len(bs) - n + 1, Len(bs)) ELSE PadBits(<<0>> \o bs, n)
Bits64(x) == PadBits(BitsOf(Mod64(x).mag), 64)                           \* most significant first
RECURSIVE FromBitsU(_,_)
FromBitsU(bs, acc) == IF bs = <<>> THEN acc ELSE FromBitsU(Tail(bs), AddMag(DoubleMag(acc), IF bs[1] = 1 THEN <<1>> ELSE <<>>))
FromBits64(bs) == LET u == Mk(FALSE, Strip(FromBitsU(bs, <<>>))) IN IF bs[1] = 1 THEN Sub(u, Pow2(64)) ELSE u
BitAnd(x, y) == LET a == Bits64(x) b == Bits64(y) IN FromBits64([i \in 1..64 |-> IF a[i] = 1 /\ b[i] = 1 THEN 1 ELSE 0])
BitOr(x, y) == LET a == Bits64(x) b == Bits64(y) IN FromBits64([i \in 1..64 |-> IF a[i] = 1 \/ b[i] = 1 THEN 1 ELSE 0])
BitXor(x, y) == LET a == Bits64(x) b == Bits64(y) IN FromBits64([i \in 1..64 |-> IF a[i] # b[i] THEN 1 ELSE 0])
BitNot(x) == Sub(Neg(x), FromInt(1))

\* conversion for tests: value of a small big integer as a TLC integer
RECURSIVE MagVal(_,_)
MagVal(m, i) == IF i > Len(m) THEN 0 ELSE m[i] + B * MagVal(m, i + 1)
ToInt(x) == IF x.neg THEN -MagVal(x.mag, 1) ELSE MagVal(x.mag, 1)
=============================================================================
