SPECIFICATION GSpec
CONSTANTS NP = 2
          NQ = 1
          NR = 1
          NQUERY = 4
CHECK_DEADLOCK FALSE
INVARIANT Emit
CONSTRAINT Bound
