SPECIFICATION GSpec
CONSTANTS N1 = 3
          N2 = 1
          ND = 2
          NCTX = 8
          ALPHA = "full"
CHECK_DEADLOCK FALSE
INVARIANT Emit
INVARIANT BarrierOK
PROPERTY CutExact
CONSTRAINT Bound
