SPECIFICATION Spec
CONSTANTS FAMILY = "@FAMILY@"
          NMAX = @NMAX@
INVARIANT Emit
CHECK_DEADLOCK FALSE
