---------------------------- MODULE OpTableWalk ----------------------------
EXTENDS OpTable
\* --- random walks (tlc -simulate): histories of op/3 calls from the initial table, a case per walk ---
VARIABLE hist
WInit == tab = Initial /\ depth = 0 /\ probe = NoProbe /\ hist = <<>>
\* TLC's simulator computes every successor before choosing one; with 1 920 calls per step that is 25 walks a minute. The step
\* therefore offers one random call: with equal odds one with well-formed arguments or an arbitrary one.
\* (a product of sub-universes, not a filter over Calls: TLC would re-evaluate the filter at every step)
OKCalls == { <<"int", 0>>, <<"int", 200>>, <<"int", 1000>>, <<"int", 1001>> } \X { <<"atom", x>> : x \in Specs }
           \X (El \cup { <<"list", <<e>>, "nil">> : e \in El } \cup { <<"list", <<<<"atom", "a">>, e>>, "nil">> : e \in El })
WNext == /\ \E c \in {RandomElement(IF RandomElement({0, 1}) = 0 THEN OKCalls ELSE Calls)} : /\ tab' = After(tab, c[1], c[2], c[3])
                               /\ hist' = Append(hist, [p |-> c[1], s |-> c[2], o |-> c[3], errs |-> Errors(tab, c[1], c[2], c[3]), after |-> tab'])
          /\ depth' = depth + 1 /\ UNCHANGED probe
WSpec == WInit /\ [][WNext]_<<tab, depth, probe, hist>>
WEmit == depth = 25 => PrintT("CASE " \o ToJson([tab |-> Initial, calls |-> hist]))
WInv == TableOK(tab)

=============================================================================
