---------------------------- MODULE OpTableWalk ----------------------------
EXTENDS OpTable
\* --- random walks (tlc -simulate): histories of op/3 calls from the initial table, a case per walk ---
VARIABLE hist
WInit == tab = Initial /\ depth = 0 /\ probe = NoProbe /\ hist = <<>>
WNext == /\ \E c \in Calls : /\ tab' = After(tab, c[1], c[2], c[3])
                               /\ hist' = Append(hist, [p |-> c[1], s |-> c[2], o |-> c[3], errs |-> Errors(tab, c[1], c[2], c[3]), after |-> tab'])
          /\ depth' = depth + 1 /\ UNCHANGED probe
WSpec == WInit /\ [][WNext]_<<tab, depth, probe, hist>>
WEmit == depth = 25 => PrintT("CASE " \o ToJson([tab |-> Initial, calls |-> hist]))
WInv == TableOK(tab)

=============================================================================
