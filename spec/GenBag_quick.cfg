SPECIFICATION GSpec
CONSTANTS NR = 2
          NEST = TRUE
          LISTS = FALSE
CHECK_DEADLOCK FALSE
INVARIANT Emit
PROPERTY NoLeak
CONSTRAINT Bound
