SPECIFICATION GSpec
CONSTANTS NR = 2
          NEST = TRUE
CHECK_DEADLOCK FALSE
INVARIANT Emit
PROPERTY NoLeak
CONSTRAINT Bound
