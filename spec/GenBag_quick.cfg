SPECIFICATION GSpec
CONSTANTS NR = 2
          NEST = TRUE
          LISTS = "no"
CHECK_DEADLOCK FALSE
INVARIANT Emit
PROPERTY NoLeak
CONSTRAINT Bound
