---------------------------- MODULE CancelTrace ----------------------------
(* Trace validation for C13: the poll / child / cancel / end events recorded from the real      *)
(* trampoline (hooks at the top of every Promise.Force iteration and before every child, the    *)
(* nesting level taken from the Go call stack) must be a behaviour of Cancel.tla with           *)
(* InheritCtx = TRUE. Between two logged events the silent steps of Cancel.tla (a child         *)
(* finishing, a nested Force starting or returning) are inferred.                               *)
EXTENDS Cancel, Json, IOUtils

Trace == ndJsonDeserialize(IOEnv.TRACE)
VARIABLES l
tvars == <<levels, ctx, returned, started, lateStarts, l>>

Start == << [pc |-> "top", own |-> "caller", late |-> FALSE] >>
TInit == /\ Trace[1].ev = "init" /\ levels = Start /\ ctx = "live" /\ returned = "no" /\ started = 0 /\ lateStarts = 0
         /\ l = 2 /\ TLCSet(1, 2)

\* silent steps that bring the stack to level n at the top of its loop
RECURSIVE Prep(_,_,_)
Prep(lv, n, own) ==
  IF Len(lv) = n THEN (IF lv[n].pc = "top" THEN {lv} ELSE IF lv[n].pc \in {"child", "ready"} THEN {FDone(lv)} ELSE {})     \* child done / pop-only iteration
  ELSE IF Len(lv) = n - 1 THEN (IF n > 1 /\ lv[n - 1].pc = "child" /\ own = lv[n - 1].own THEN {FNested(lv, own)} ELSE {})   \* a nested Force inherits the context
  ELSE IF Len(lv) > n THEN (IF lv[Len(lv)].pc \in {"seen", "ready"} THEN Prep(FReturn(lv), n, own) ELSE {})
  ELSE {}
\* all levels return: the run ends
RECURSIVE Unwind(_)
Unwind(lv) == IF Len(lv) = 1 THEN lv ELSE IF lv[Len(lv)].pc \in {"seen", "ready"} THEN Unwind(FReturn(lv)) ELSE <<>>

Ev == Trace[l]
TPoll == /\ Ev.ev = "poll" /\ Ev.l >= 1
         /\ \E lv \in Prep(levels, Ev.l, Ev.own) : levels' = FPoll(lv, ctx)
         /\ UNCHANGED <<ctx, returned, started, lateStarts>>
TChild == /\ Ev.ev = "child" /\ Len(levels) = Ev.l /\ levels[Ev.l].pc = "ready"
          /\ levels' = FStart(levels) /\ started' = started + 1
          /\ UNCHANGED <<ctx, returned, lateStarts>>
TCancel == /\ Ev.ev = "cancel" /\ ctx' = "cancelled" /\ UNCHANGED <<levels, returned, started, lateStarts>>
\* the pending API call returned: every level has returned; the error is the context's iff the outermost level saw the
\* cancellation; an endless program cannot end in any other way; the interpreter answered the follow-up queries
TEnd == /\ Ev.ev = "end"
        /\ Ev.followup = "ok"
        /\ IF Ev.err = "ctx"
           THEN LET lv == Unwind(levels) IN lv # <<>> /\ lv[1].pc = "seen" /\ returned' = "ctxErr"
           ELSE \* the call ended without error (for Query/QuerySolution: an answer was delivered, the search may be suspended
                \* anywhere): only a program that can end by itself may do so, and nobody may have seen the cancellation
                /\ Ev.err = "none" /\ ~Ev.endless
                /\ \A i \in 1..Len(levels) : levels[i].pc # "seen"
                /\ returned' = "normal"
        /\ levels' = <<>>
        /\ UNCHANGED <<ctx, started, lateStarts>>
TReset == /\ Ev.ev = "init" /\ levels = <<>>
          /\ levels' = Start /\ ctx' = "live" /\ returned' = "no" /\ started' = 0 /\ lateStarts' = 0

TNext == l <= Len(Trace) /\ (TPoll \/ TChild \/ TCancel \/ TEnd \/ TReset) /\ l' = l + 1
TSpec == TInit /\ [][TNext]_tvars

\* the invariants of Cancel.tla are evaluated in every state of every recorded execution
TraceInv == NoNewWorkAfterCancel
HW == TLCSet(1, IF TLCGet(1) < l THEN l ELSE TLCGet(1))
Accepted == IF TLCGet(1) = Len(Trace) + 1 THEN TRUE
            ELSE PrintT("REJECTED " \o ToString(TLCGet(1)) \o " " \o ToString(Len(Trace))) /\ FALSE
=============================================================================
