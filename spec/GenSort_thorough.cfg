SPECIFICATION Spec
CONSTANT NL = 4
INVARIANT Emit
INVARIANT Ascending
INVARIANT SameSet
INVARIANT KeyStable
CHECK_DEADLOCK FALSE
