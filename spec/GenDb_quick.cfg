SPECIFICATION GSpec
CONSTANTS N = 2
          DOUBLE = FALSE
          ARITY0 = FALSE
CHECK_DEADLOCK FALSE
INVARIANT Emit
INVARIANT IdsUnique
PROPERTY LUV
PROPERTY DbStep
CONSTRAINT Bound
