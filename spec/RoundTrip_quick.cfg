SPECIFICATION Spec
CONSTANTS DEPTH = 2
          ALLCOMBOS = FALSE
INVARIANT Emit
CHECK_DEADLOCK FALSE
