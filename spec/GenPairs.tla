------------------------------ MODULE GenPairs ------------------------------
(* C02 and C08: every ordered pair (x, y) of a universe rich in lists (proper, partial,        *)
(* improper, nested, with shared and repeated variables), numbers (numerically equal integers   *)
(* and floats), atoms whose names are prefixes of each other, and compounds of arity 1 to 3     *)
(* (including './1 and './3, which are not lists). For each pair the specification gives        *)
(*   - unification: unifiable or not, the most general unifier as the canonical binding vector  *)
(*     of the variables, whether the pair is subject to occurs check (=/2 undefined, only       *)
(*     unify_with_occurs_check/2 is judged then), and the same for y renamed apart (clause-head *)
(*     unification);                                                                            *)
(*   - the standard order: the result of compare/3 and whether it hinges on the order of two    *)
(*     distinct unbound variables (then only the consistency within one call is judged).        *)
(* How a list is built (bracket literal, '|' notation, './2, double-quoted text, append/3,      *)
(* atom_chars/2, =../2, findall/3, length/2) is chosen by the replayer: the outcome must not    *)
(* depend on it.                                                                                *)
EXTENDS Terms, Json
NV == 3
a == A("a")
b == A("b")
L(s) == MkList(s)
RECURSIVE PL(_,_)
PL(s, t) == IF s = <<>> THEN t ELSE Cons(s[1], PL(Tail(s), t))
Univ == { a, b, A("ab"), A(""), A("B"), C("", <<a>>), I(1), I(2), Fl(2), Fl(4), Fl(3), V(1), V(2), Nil,
          L(<<a>>), L(<<a, b>>), L(<<b, a>>), L(<<a, b, a>>), L(<<V(1), b>>), L(<<a, V(2)>>), L(<<I(1), I(2)>>), L(<<V(1), V(1)>>),
          PL(<<a>>, V(3)), PL(<<a, b>>, V(3)), PL(<<V(1)>>, V(1)), PL(<<a>>, b), PL(<<V(2), b>>, V(2)),
          C("f", <<a>>), C("f", <<V(1)>>), C("f", <<L(<<a, b>>)>>), C("f", <<PL(<<a>>, V(3))>>), C("g", <<V(1), V(2)>>), C("g", <<V(2), L(<<a>>)>>),
          C("g", <<L(<<a, b>>), L(<<a, b>>)>>), C("g", <<V(1), V(1)>>), C("g", <<a, Fl(2)>>), C("h", <<a, b, V(3)>>),
          L(<<L(<<a>>), L(<<b>>)>>), C(".", <<a>>), C(".", <<a, b, Nil>>), C("f", <<V(1), I(1)>>),
          I(-7003), I(-7002), I(7001), I(7003), C("f", <<I(7003)>>),   \* stand for integers near the 64-bit limits (the replayer maps them, keeping the order)
          L(<<I(97), I(98)>>), C("f", <<L(<<I(97), I(98)>>)>>) }      \* the codes of "ab": a list of integers that has a compact representation, too
CONSTANT SUB      \* TRUE: a sub-universe (quick)
Small == { I(-7003), I(7003), I(-1), a, A("ab"), I(1), Fl(2), Fl(4), V(1), V(2), Nil, L(<<a, b>>), L(<<V(1), b>>), L(<<a, V(2)>>), L(<<V(1), V(1)>>), PL(<<a>>, V(3)), PL(<<V(1)>>, V(1)),
           PL(<<a>>, b), C("f", <<V(1)>>), C("f", <<L(<<a, b>>)>>), L(<<I(97), I(98)>>), C("g", <<V(1), V(2)>>), C("g", <<V(2), L(<<a>>)>>), C("g", <<V(1), V(1)>>), C(".", <<a>>), C("h", <<a, b, V(3)>>) }
U0 == IF SUB THEN Small ELSE Univ
\* bindings made by an EARLIER goal (Vk = t before x and y meet): a variable of the pair may stand for a compound, a list, a partial
\* list ending in another variable of the pair, or another variable - the unifier, the occurs check and the order must look through them
NoPre == <<0, a>>
PreSubs == IF SUB THEN { NoPre, <<1, C("f", <<V(2)>>)>>, <<3, PL(<<a>>, V(1))>> }
           ELSE { NoPre, <<1, C("f", <<V(2)>>)>>, <<3, PL(<<a>>, V(1))>>, <<2, L(<<a, V(3)>>)>>, <<1, V(2)>>, <<2, C("g", <<V(1), V(3)>>)>> }
VARIABLES x, y, pre, done
Init == x \in U0 /\ y \in U0 /\ pre \in PreSubs /\ done = FALSE
Next == ~done /\ done' = TRUE /\ UNCHANGED <<x, y, pre>>
Spec == Init /\ [][Next]_<<x, y, pre, done>>
Store(n) == IF pre[1] = 0 THEN Fresh(n) ELSE [Fresh(n) EXCEPT ![pre[1]] = pre[2]]
S0 == Store(NV)

Vec(bnd) == Canon(C("$", [k \in 1..NV |-> V(k)]), bnd)[3]
Case == LET u == UnifyS(x, y, S0)
            oc == UnifyOC(x, y, S0)
            yh == Shift(y, NV)                                  \* y renamed apart: the head of a clause
            uh == UnifyS(x, yh, Store(2 * NV))
        IN [x |-> x, y |-> y, pre |-> pre, b0 |-> Vec(S0), sto |-> u.sto, ok |-> u.ok, occ |-> oc.ok,
            b |-> IF u.ok THEN Vec(u.b) ELSE <<>>,
            bocc |-> IF oc.ok THEN Vec(oc.b) ELSE <<>>,
            hsto |-> uh.sto, hok |-> uh.ok, hb |-> IF uh.ok THEN Vec(uh.b) ELSE <<>>,
            cmp |-> Compare(x, y, S0), dep |-> VarOrderDependent(x, y, S0)]
Emit == done => PrintT("CASE " \o ToJson(Case))

\* --- U1: laws of the unifier and of the order on this very universe ---
Sound == LET u == UnifyS(x, y, S0) IN u.ok => Resolve(x, u.b) = Resolve(y, u.b)
Symmetric == LET u == UnifyS(x, y, S0) w == UnifyS(y, x, S0) IN
             /\ u.ok = w.ok /\ u.sto = w.sto
             /\ (u.ok => Variant(C("$", [k \in 1..NV |-> Resolve(V(k), u.b)]), C("$", [k \in 1..NV |-> Resolve(V(k), w.b)])))
Idempotent == LET u == UnifyS(x, y, S0) IN u.ok => \A k \in 1..NV : Resolve(Resolve(V(k), u.b), u.b) = Resolve(V(k), u.b)
FailureKeeps == LET u == UnifyS(x, y, S0) IN ~u.ok => u.b = S0
OCAgrees == LET u == UnifyS(x, y, S0) oc == UnifyOC(x, y, S0) IN IF u.sto THEN ~oc.ok ELSE (oc.ok = u.ok /\ oc.b = u.b)
Antisym == Compare(x, y, S0) = -Compare(y, x, S0)
EqIffIdentical == (Compare(x, y, S0) = 0) <=> (Resolve(x, S0) = Resolve(y, S0))
Transitive == \A z \in U0 : (Compare(x, y, S0) <= 0 /\ Compare(y, z, S0) <= 0) => Compare(x, z, S0) <= 0
=============================================================================
