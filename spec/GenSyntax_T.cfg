SPECIFICATION Spec
CONSTANTS TABLE = "@TABLE@"
          ALPHA = "@ALPHA@"
          NMAX = @NMAX@
INVARIANT StrictInRelaxed
INVARIANT Emit
CHECK_DEADLOCK FALSE
