SPECIFICATION GSpec
CHECK_DEADLOCK FALSE
INVARIANT Emit
PROPERTY CutExact
CONSTRAINT Bound
