SPECIFICATION GSpec
CONSTANTS NI = 3
          GEN = TRUE
          FULL = TRUE
CHECK_DEADLOCK FALSE
INVARIANT Emit
INVARIANT LanguagePreserved
CONSTRAINT Bound
