SPECIFICATION Spec
CONSTANTS NV = 30
          LEN = 44
INVARIANT Emit
INVARIANT Derived
PROPERTY Persistent
CHECK_DEADLOCK FALSE
