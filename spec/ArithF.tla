------------------------------- MODULE ArithF -------------------------------
(* C07 (floats). TLA+ has no floating point: the IEEE-754 double result of + - * / is supplied per *)
(* case by the harness (Go's float64 operation: trusted base) only as a CLASS - finite, infinite,   *)
(* NaN, zero - together with the classes of the operands; the specification fixes what the          *)
(* statement fixes, the classification:                                                             *)
(*   divisor zero -> zero_divisor; infinite -> float_overflow; NaN -> undefined; a zero result of   *)
(*   * or / from non-zero operands -> underflow; otherwise the IEEE value, bit for bit.             *)
(* Float-to-integer functions are exact: the float is given as sign, 53-bit mantissa (limbs) and    *)
(* binary exponent, floor/ceiling/round/truncate are computed in BigInt, then the range rule.       *)
EXTENDS BigInt, Json, IOUtils
Input == ndJsonDeserialize(IOEnv.INPUT)
VARIABLES i, done
Init == i \in 1..Len(Input) /\ done = FALSE
Next == ~done /\ done' = TRUE /\ UNCHANGED i
Spec == Init /\ [][Next]_<<i, done>>
Rec == Input[i]
Classify(r) ==
  IF r.op = "/" /\ r.yzero THEN "zero_divisor"
  ELSE IF r.rclass = "inf" THEN "float_overflow"
  ELSE IF r.rclass = "nan" THEN "undefined"
  ELSE IF r.op \in {"*", "/"} /\ r.rclass = "zero" /\ ~r.xzero /\ ~r.yzero THEN "underflow"
  ELSE "value"
\* exact integer functions of the float  (-1)^neg * mant * 2^exp
Mant(r) == Mk(FALSE, r.mant)
FtoI(r) ==
  LET m == Mant(r) IN
  IF IsZero(m) THEN [kind |-> "int", v |-> Zero]
  ELSE IF r.exp >= 0 THEN (IF r.exp > 11 THEN [kind |-> "err"] ELSE
                           LET v == Mk(r.neg, Mul(m, Pow2(r.exp)).mag) IN IF InRange(v) THEN [kind |-> "int", v |-> v] ELSE [kind |-> "err"])
  ELSE LET sh == -r.exp
           dm == IF sh > 120 THEN [q |-> <<>>, r |-> <<1>>] ELSE DivModMag(m.mag, Pow2(sh).mag)       \* |x| < 1 when sh > 53
           q == Mk(FALSE, dm.q)
           frac == dm.r # <<>>
           \* is the fractional part >= 1/2 ?  (2 * rem >= 2^sh)
           half == IF sh > 120 THEN FALSE ELSE CmpMag(Strip(DoubleMag(dm.r)), Pow2(sh).mag) >= 0
           mag == CASE r.fn = "truncate" -> q
                    [] r.fn = "floor" -> IF r.neg /\ frac THEN Inc(q) ELSE q
                    [] r.fn = "ceiling" -> IF ~r.neg /\ frac THEN Inc(q) ELSE q
                    [] r.fn = "round" -> IF half THEN Inc(q) ELSE q                                   \* halves away from zero
           v == Mk(r.neg, mag.mag)
       IN IF InRange(v) THEN [kind |-> "int", v |-> v] ELSE [kind |-> "err"]
Outcome == IF Rec.kind = "binop" THEN [class |-> Classify(Rec)] ELSE FtoI(Rec)
Emit == done => PrintT("CASE " \o ToJson([id |-> Rec.id, kind |-> Rec.kind, out |-> Outcome]))
=============================================================================
