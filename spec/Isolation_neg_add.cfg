SPECIFICATION Spec
CONSTANTS UseLock = TRUE
          AtomicAdd = FALSE
          NG = 2
INVARIANT Interned
INVARIANT TableOK
INVARIANT NoTornRead
INVARIANT VarsOnce
CHECK_DEADLOCK FALSE
