------------------------------ MODULE Builtins ------------------------------
(* C16: the relations of the 17 relational built-ins as declarative definitions over a finite  *)
(* universe, and Answers(pred, pattern): the multiset of tuples a call must enumerate.          *)
(*                                                                                              *)
(* Values: <<"A", chars>> an atom as a sequence of symbolic characters - "a", "b" (1 byte),     *)
(* "E2" (a 2-byte character), "J3" (a 3-byte character): text is measured in characters;        *)
(* <<"i", n>> a small integer; <<"B", "max"|"min", k>> the integer max-k / min+k near the       *)
(* 64-bit limits; <<"L", elems>> a proper list; <<"C", name, args>> a compound; <<"U">> an      *)
(* unbound variable in an answer (distinct occurrences are distinct variables), <<"W", j>> the  *)
(* j-th named variable of an answer (shared between its arguments); <<"v", k>> an unbound       *)
(* argument of the call pattern.                                                                *)
(* The universe of every relation is generated from its WHOLE (the atom that is split, the      *)
(* list that is decomposed), so that it is closed under the instantiation patterns: for a call  *)
(* with a bound whole every answer lies inside the universe.                                    *)
(* member/2, select/3, nth0/3, nth1/3 are relations over (position, element): a repeated        *)
(* element is a repeated answer.                                                                *)
EXTENDS Integers, Sequences, FiniteSets, TLC, Json, SequencesExt

Chars == {"a", "E2", "J3"}
At(s) == <<"A", s>>
N(n) == <<"i", n>>
Ls(s) == <<"L", s>>
Cm(f, args) == <<"C", f, args>>
Un == <<"U">>
Seqs(S, n) == UNION { [1..k -> S] : k \in 0..n }
CONSTANTS NA,      \* maximal atom length
          NL       \* maximal list length
Atoms == { At(s) : s \in Seqs(Chars, NA) }
Elems == { At(<<"a">>), At(<<"E2">>), N(1) }
Lists == { Ls(s) : s \in Seqs(Elems, NL) }
Ints == { N(n) : n \in 0..3 }
Code(c) == CASE c = "a" -> 97 [] c = "E2" -> 233 [] c = "J3" -> 26085
Terms1 == { At(<<"a">>), N(1), At(<<>>) } \cup { Cm(f, s) : f \in {"f", "g"}, s \in [1..1 -> {At(<<"a">>), N(1)}] \cup [1..2 -> {At(<<"a">>), N(1)}] }
          \cup { Ls(<<At(<<"a">>)>>) }
IsAtomic(t) == t[1] \in {"A", "i"}
FName(t) == IF IsAtomic(t) THEN t ELSE IF t[1] = "L" THEN At(<<".">>) ELSE At(<<t[2]>>)       \* functor names are written as one symbolic character
FArgs(t) == IF IsAtomic(t) THEN <<>> ELSE IF t[1] = "L" THEN <<t[2][1], Ls(Tail(t[2]))>> ELSE t[3]

\* the tuples of each relation as a SEQUENCE (multiplicity = number of witnesses); order is irrelevant
Pos(l) == { <<i, l>> : i \in 1..Len(l[2]) }
PosSeq == SetToSeq(UNION { Pos(l) : l \in Lists })
Tuples(pred) ==
  CASE pred = "atom_length" -> SetToSeq({ <<x, N(Len(x[2]))>> : x \in Atoms })
    [] pred = "atom_concat" -> SetToSeq(UNION { { <<At(SubSeq(w[2], 1, k)), At(SubSeq(w[2], k + 1, Len(w[2]))), w>> : k \in 0..Len(w[2]) } : w \in Atoms })
    [] pred = "sub_atom" -> SetToSeq({ <<w[1], N(w[2]), N(w[3]), N(Len(w[1][2]) - w[2] - w[3]), At(SubSeq(w[1][2], w[2] + 1, w[2] + w[3]))>> :
                                        w \in { v \in Atoms \X (0..NA) \X (0..NA) : v[2] + v[3] <= Len(v[1][2]) } })
    [] pred = "atom_chars" -> SetToSeq({ <<x, Ls([i \in 1..Len(x[2]) |-> At(<<x[2][i]>>)])>> : x \in Atoms })
    [] pred = "atom_codes" -> SetToSeq({ <<x, Ls([i \in 1..Len(x[2]) |-> N(Code(x[2][i]))])>> : x \in Atoms })
    [] pred = "char_code" -> SetToSeq({ <<At(<<c>>), N(Code(c))>> : c \in Chars })
    [] pred = "append" -> SetToSeq(UNION { { <<Ls(SubSeq(w[2], 1, k)), Ls(SubSeq(w[2], k + 1, Len(w[2]))), w>> : k \in 0..Len(w[2]) } : w \in Lists })
    [] pred = "length" -> SetToSeq({ <<l, N(Len(l[2]))>> : l \in Lists })
    [] pred = "between" -> SetToSeq({ t \in Ints \X Ints \X Ints : t[1][2] <= t[3][2] /\ t[3][2] <= t[2][2] }
                                    \cup { <<<<"B", s, 2>>, <<"B", s, 0>>, <<"B", s, j>> >> : s \in {"max"}, j \in 0..2 }
                                    \cup { <<<<"B", s, 0>>, <<"B", s, 2>>, <<"B", s, j>> >> : s \in {"min"}, j \in 0..2 })
    [] pred = "member" -> [k \in 1..Len(PosSeq) |-> LET w == PosSeq[k] IN <<w[2][2][w[1]], w[2]>>]
    [] pred = "nth0" -> [k \in 1..Len(PosSeq) |-> LET w == PosSeq[k] IN <<N(w[1] - 1), w[2], w[2][2][w[1]]>>]
    [] pred = "nth1" -> [k \in 1..Len(PosSeq) |-> LET w == PosSeq[k] IN <<N(w[1]), w[2], w[2][2][w[1]]>>]
    [] pred = "select" -> [k \in 1..Len(PosSeq) |-> LET w == PosSeq[k] IN
                             <<w[2][2][w[1]], w[2], Ls(SubSeq(w[2][2], 1, w[1] - 1) \o SubSeq(w[2][2], w[1] + 1, Len(w[2][2])))>>]
    [] pred = "succ" -> SetToSeq({ <<N(n), N(n + 1)>> : n \in 0..2 } \cup { << <<"B", "max", 1>>, <<"B", "max", 0>> >>, << <<"B", "max", 2>>, <<"B", "max", 1>> >> })
    [] pred = "functor" -> SetToSeq({ <<t, FName(t), N(Len(FArgs(t)))>> : t \in Terms1 })
    [] pred = "arg" -> SetToSeq(UNION { { <<N(i), t, FArgs(t)[i]>> : i \in 1..Len(FArgs(t)) } : t \in { u \in Terms1 : ~IsAtomic(u) } })
    [] pred = "univ" -> SetToSeq({ <<t, Ls(<<FName(t)>> \o FArgs(t))>> : t \in Terms1 })

\* modes: which argument positions may be unbound together (ISO 8.x templates / the Prologue for lists); "b" = bound
Modes(pred) ==
  CASE pred = "atom_length" -> { <<"b", "u">>, <<"b", "b">> }
    [] pred = "atom_concat" -> { <<"u", "u", "b">>, <<"b", "u", "b">>, <<"u", "b", "b">>, <<"b", "b", "u">>, <<"b", "b", "b">> }
    [] pred = "sub_atom" -> { <<"b">> \o m : m \in [1..4 -> {"b", "u"}] }
    [] pred \in {"atom_chars", "atom_codes", "char_code", "succ", "univ"} -> { <<"b", "u">>, <<"u", "b">>, <<"b", "b">> }
    [] pred = "append" -> { <<"u", "u", "b">>, <<"b", "b", "u">>, <<"b", "u", "b">>, <<"u", "b", "b">>, <<"b", "b", "b">>, <<"u", "b", "u">> }
    [] pred = "length" -> { <<"b", "u">>, <<"b", "b">>, <<"u", "b">>, <<"u", "u">> }
    [] pred = "between" -> { <<"b", "b", "u">>, <<"b", "b", "b">> }
    [] pred = "member" -> { <<"u", "b">>, <<"b", "b">> }
    [] pred \in {"nth0", "nth1"} -> { <<"u", "b", "u">>, <<"b", "b", "u">>, <<"u", "b", "b">>, <<"b", "b", "b">> }
    [] pred = "select" -> { <<"u", "b", "u">>, <<"b", "b", "u">>, <<"b", "b", "b">>, <<"u", "b", "b">> }
    [] pred = "functor" -> { <<"b", "u", "u">>, <<"b", "b", "u">>, <<"b", "u", "b">>, <<"b", "b", "b">>, <<"u", "b", "b">> }
    [] pred = "arg" -> { <<"b", "b", "u">>, <<"b", "b", "b">> }        \* ISO 8.5.2: arg(+integer, +compound_term, ?term)

Preds == {"atom_length", "atom_concat", "sub_atom", "atom_chars", "atom_codes", "char_code", "append", "length", "between", "member", "nth0", "nth1",
          "select", "succ", "functor", "arg", "univ"}

Mask(t, m) == [i \in 1..Len(t) |-> IF m[i] = "u" THEN <<"v", i>> ELSE t[i]]
Matches(pat, t) == /\ \A i \in 1..Len(t) : pat[i][1] = "v" \/ pat[i] = t[i]
                   /\ \A i, j \in 1..Len(t) : (pat[i][1] = "v" /\ pat[j] = pat[i]) => t[i] = t[j]      \* one variable in two positions: one value
\* aliased patterns: two unbound positions of a mode hold the SAME variable (the modes whose answers are built from fresh
\* variables are left out)
Alias(p, i, j) == [p EXCEPT ![j] = p[i]]
AliasOK(pred, m) == ~(pred = "length" /\ m[1] = "u") /\ ~(pred = "append" /\ m[1] = "u" /\ m[3] = "u") /\ ~(pred = "functor" /\ m[1] = "u")
\* modes with infinitely many answers: the first LIMIT answers, in the order the mode defines
LIMIT == 5
Infinite(pred, pat) == \/ pred = "length" /\ pat[1][1] = "v" /\ pat[2][1] = "v"
                       \/ pred = "append" /\ pat[1][1] = "v" /\ pat[3][1] = "v"
Wv(j) == <<"W", j>>
\* construction modes answer with fresh variables: length(L, n) and functor(T, name, n)
Answers(pred, pat) ==
  IF pred = "length" /\ pat[1][1] = "v" /\ pat[2][1] = "v" THEN [k \in 1..LIMIT |-> <<Ls([i \in 1..(k - 1) |-> Un]), N(k - 1)>>]
  ELSE IF pred = "append" /\ pat[1][1] = "v" /\ pat[3][1] = "v"
       THEN [k \in 1..LIMIT |-> <<Ls([i \in 1..(k - 1) |-> Wv(i)]), pat[2], Ls([i \in 1..(k - 1) |-> Wv(i)] \o pat[2][2])>>]
  ELSE IF pred = "length" /\ pat[1][1] = "v" THEN << <<Ls([i \in 1..pat[2][2] |-> Un]), pat[2]>> >>
  ELSE IF pred = "functor" /\ pat[1][1] = "v"
       THEN (IF pat[3][2] = 0 THEN << <<pat[2], pat[2], pat[3]>> >>
             ELSE IF pat[2][1] = "A" /\ pat[2][2] = <<".">> /\ pat[3][2] = 2 THEN << <<Cm(".", <<Un, Un>>), pat[2], pat[3]>> >>
             ELSE << <<Cm(pat[2][2][1], [i \in 1..pat[3][2] |-> Un]), pat[2], pat[3]>> >>)
  ELSE SelectSeq(Tuples(pred), LAMBDA t : Matches(pat, t))

CONSTANT PREDSET    \* the predicates enumerated by this configuration
VARIABLES pred, pat, done
Init == /\ pred \in PREDSET
        /\ pat \in LET T == Tuples(pred) IN
                    { Mask(T[k], m) : k \in 1..Len(T), m \in Modes(pred) }
                    \cup UNION { { Alias(Mask(T[k], m), ij[1], ij[2]) : ij \in { x \in (1..Len(m)) \X (1..Len(m)) : x[1] < x[2] /\ m[x[1]] = "u" /\ m[x[2]] = "u" } } :
                                 k \in 1..Len(T), m \in { mm \in Modes(pred) : AliasOK(pred, mm) } }
                    \* near misses: a fully instantiated call in which one argument is taken from the next tuple (mostly fails)
                    \cup { [T[k] EXCEPT ![i] = T[(k % Len(T)) + 1][i]] : k \in 1..Len(T), i \in 1..Len(T[1]) }
        /\ done = FALSE
Next == ~done /\ done' = TRUE /\ UNCHANGED <<pred, pat>>
Spec == Init /\ [][Next]_<<pred, pat, done>>
Emit == done => PrintT("CASE " \o ToJson([pred |-> pred, pat |-> pat, answers |-> Answers(pred, pat), infinite |-> Infinite(pred, pat)]))

\* --- U1: laws that tie the relations together ---
\* instantiating further arguments selects exactly the matching subset of the answers of the more general call
\* every answer matches the pattern, and instantiating one more argument from an answer selects a sub-multiset of the answers
SubsetLaw == LET general == Answers(pred, pat) IN
             /\ \A k \in 1..Len(general) : Matches(pat, general[k]) \/ Infinite(pred, pat) \/ \E i \in 1..Len(pat) : general[k][i] = Un \/ (general[k][i][1] = "C" /\ Un \in { general[k][i][3][j] : j \in 1..Len(general[k][i][3]) }) \/ general[k][i][1] = "L"
             /\ \A k \in 1..Len(general) : \A i \in 1..Len(pat) :
                   (pat[i][1] = "v" /\ pred \notin {"length", "functor"} /\ ~Infinite(pred, pat)) =>
                     LET special == Answers(pred, [j \in 1..Len(pat) |-> IF pat[j] = pat[i] THEN general[k][i] ELSE pat[j]]) IN     \* (every position of that variable)
                     \A j \in 1..Len(special) : \E g \in 1..Len(general) : general[g] = special[j]
ConcatLength == pred = "atom_concat" => LET ans == Answers(pred, pat) IN \A k \in 1..Len(ans) : Len(ans[k][3][2]) = Len(ans[k][1][2]) + Len(ans[k][2][2])
SubAtomSum == pred = "sub_atom" => LET ans == Answers(pred, pat) IN \A k \in 1..Len(ans) :
                ans[k][2][2] + ans[k][3][2] + ans[k][4][2] = Len(ans[k][1][2]) /\ Len(ans[k][5][2]) = ans[k][3][2]
NthShift == pred = "nth0" => LET ans == Answers(pred, pat) T1 == Tuples("nth1") IN \A k \in 1..Len(ans) :
              \E j \in 1..Len(T1) : T1[j] = <<N(ans[k][1][2] + 1), ans[k][2], ans[k][3]>>
=============================================================================
