------------------------------ MODULE AtomText ------------------------------
(* C06, "atoms of arbitrary text": every atom whose name is a string of <= NLEN characters over an alphabet of characters *)
(* chosen one or two per lexical class (the replayer maps the numbers 1..NC to them: small letter, capital, underscore,   *)
(* digit, graphic, dot, the three quotes, backslash, blank, newline, every punctuation character, comment characters,     *)
(* a non-ASCII letter), standing alone and in every kind of position: argument, list element, operand of a prefix and of  *)
(* an infix operator (where a blank or a bracket may be needed between two tokens), functor, in braces. RoundTrip.tla      *)
(* samples a few names per class over many term shapes; this module takes all names over few shapes. The law is the      *)
(* oracle (write, append ' .', read back, compare); the cases are RoundTrip cases and go through the same replayer.       *)
EXTENDS Integers, Sequences, TLC, Json
CONSTANTS NC,      \* the characters are 1..NC
          NLEN     \* maximal length of a name
Names == UNION { [1..k -> 1..NC] : k \in 0..NLEN }
At(s) == <<"atomtext", s>>
Plain == <<"atom", "alnum">>
Shapes(s) == { At(s), <<"cmp1", At(s)>>, <<"list1", At(s)>>, <<"curly", At(s)>>, <<"pre", "minus", At(s)>>, <<"inf", "minus", At(s), At(s)>>,
               <<"inf", "eq", Plain, At(s)>>, <<"inf", "comma", At(s), Plain>>, <<"fn", At(s), Plain>>, <<"pre", "naf", At(s)>> }
VARIABLES term, done
Init == \E s \in Names : term \in Shapes(s) /\ done = FALSE
Next == ~done /\ done' = TRUE /\ UNCHANGED term
Spec == Init /\ [][Next]_<<term, done>>
Emit == done => PrintT("CASE " \o ToJson([term |-> term, table |-> "default", writer |-> "writeq", dq |-> "codes"]))
=============================================================================
