---------------------------- MODULE Syntax ----------------------------
\* The term syntax of ISO 13211-1 section 6.3 as a grammar over TOKENS, parametrised by an operator table: for a token
\* sequence and a table, the set of terms the sequence denotes. It is the reading half of "reading and writing use exactly
\* that table" (C18) and of the read-back of C06, stated independently of the implementation's Pratt parser:
\*
\*   Strict(toks, T)   the ISO grammar: an atom that is an operator has priority 1201, i.e. it is an operand only in
\*                     parentheses, as a whole argument or list element, or as the whole term (6.3.1.3);
\*   Relaxed(toks, T)  the same grammar where an operator atom has priority 0 (the usual permissive extension).
\*
\*   Loose(toks)       the grammar with the table abstracted away: any name may be a prefix, infix or postfix operator and no
\*                     priority is compared - "the text is a term under SOME operator table". It only classifies: a term
\*                     read that is in Loose but not in Relaxed shows that the table at hand was not honoured (C18); a term
\*                     outside Loose is a misreading that has nothing to do with operators (reported as an observation).
\*
\* Contract of a reader (checked on the real parser for every enumerated token sequence):
\*   Strict # {}   =>  the reader yields a term, and that term is in Strict      (ISO text is read, and read as ISO says)
\*   otherwise     =>  the reader raises a syntax error or yields a term of Relaxed (never a term the table does not license)
\* Where two operators of equal priority make ISO ambiguous (fy p followed by yfx p, ...) both sets have several members
\* and any of them is accepted.
\*
\* tokens  <<"n", name>>  name token (letter-digit, graphic, quoted, ; !)        <<"i", k>>  integer literal k >= 0
\*         <<"num", s>>   numeric literal given by its text s (64-bit integers and floats do not fit TLC's integers)
\*         <<"v", k>>     variable number k                                       <<"p", s>>  punctuation, s one of
\*         "(" (open, after layout)  "(ct" (open directly after the previous token)  ")" "[" "]" "{" "}" "," "|"
\* terms   <<"a", name>>  <<"i", k>>  <<"v", k>>  <<"c", functor, <<args>>>>      (lists are '.'/2 chains ending in [])
\* table   set of <<name, class, priority, specifier>>, class in {"pre", "inf", "post"} (the abstract state of OpTable.tla)
EXTENDS Integers, Sequences, FiniteSets, TLC

A(s) == <<"a", s>>
C(f, args) == <<"c", f, args>>
IsName(t) == t[1] = "n"
IsInt(t) == t[1] = "i" \/ t[1] = "num"
Negated(t) == IF t[1] = "i" THEN <<"i", 0 - t[2]>> ELSE <<"num", "-" \o t[2]>>
IsP(t, s) == t[1] = "p" /\ t[2] = s

OpDefs(T, f, cls) == { d \in T : d[1] = f /\ d[2] = cls }
IsOp(T, f) == \E d \in T : d[1] = f
LeftMax(d) == IF d[4] \in {"yfx", "yf"} THEN d[3] ELSE d[3] - 1      \* greatest priority of the left operand
RightMax(d) == IF d[4] \in {"xfy", "fy"} THEN d[3] ELSE d[3] - 1     \* greatest priority of the right operand
\* the name under which a token can act as an infix operator ("" = none): a name token, the comma, the bar (6.3.4.3, Cor.2)
InfixName(t) == IF IsName(t) THEN t[2] ELSE IF IsP(t, ",") THEN "," ELSE IF IsP(t, "|") THEN "|" ELSE ""

RECURSIVE MkList(_, _)
MkList(s, tail) == IF s = <<>> THEN tail ELSE C(".", <<Head(s), MkList(Tail(s), tail)>>)

\* The entries <<term, priority>> of the span i..j, given the entries M of all shorter spans.
Compute(toks, T, mode, M, i, j) ==
  LET tk(k) == toks[k]
      P(a, b) == IF a > b THEN {} ELSE M[<<a, b>>]
      relaxed == mode # "strict"
      Below(S, max) == IF mode = "loose" THEN S ELSE { x \in S : x[2] <= max }
      Defs(f, cls) == IF mode = "loose" THEN (IF f = "" THEN {} ELSE { <<f, cls, 0, "any">> }) ELSE OpDefs(T, f, cls)
      \* 6.3.3.1: an argument is a term of priority <= 999, or an atom that is an operator
      ArgTerm(a, b) == { e[1] : e \in Below(P(a, b), 999) } \cup (IF a = b /\ IsName(tk(a)) THEN {A(tk(a)[2])} ELSE {})
      RECURSIVE ArgSeqs(_, _)
      ArgSeqs(a, b) == IF a > b THEN {}
                       ELSE { <<t>> : t \in ArgTerm(a, b) }
                            \cup UNION { { <<t>> \o r : t \in ArgTerm(a, k - 1), r \in ArgSeqs(k + 1, b) } : k \in { k \in (a + 1)..(b - 1) : IsP(tk(k), ",") } }
      Single == IF i # j THEN {}
                ELSE IF IsName(tk(i)) THEN { <<A(tk(i)[2]), IF IsOp(T, tk(i)[2]) /\ ~relaxed THEN 1201 ELSE 0>> }
                ELSE IF IsInt(tk(i)) \/ tk(i)[1] = "v" THEN { <<tk(i), 0>> }
                ELSE {}
      \* 6.3.4.1: a name token - followed by a numeric literal denotes the negative number
      MinusNum(a) == a < Len(toks) /\ IsName(tk(a)) /\ tk(a)[2] = "-" /\ IsInt(tk(a + 1))
      NegNum == IF j = i + 1 /\ MinusNum(i) THEN { <<Negated(tk(j)), 0>> } ELSE {}
      Empty == IF j # i + 1 THEN {}
               ELSE IF IsP(tk(i), "[") /\ IsP(tk(j), "]") THEN { <<A("[]"), 0>> }
               ELSE IF IsP(tk(i), "{") /\ IsP(tk(j), "}") THEN { <<A("{}"), 0>> }
               ELSE {}
      Paren == IF j > i + 1 /\ (IsP(tk(i), "(") \/ IsP(tk(i), "(ct")) /\ IsP(tk(j), ")") THEN { <<e[1], 0>> : e \in P(i + 1, j - 1) } ELSE {}
      \* functional notation: functor (a name, [] or {}) directly followed by an open-ct token
      Fn(f, a) == IF a < j - 1 /\ IsP(tk(a), "(ct") /\ IsP(tk(j), ")") THEN { <<C(f, args), 0>> : args \in ArgSeqs(a + 1, j - 1) } ELSE {}
      Functional == (IF IsName(tk(i)) THEN Fn(tk(i)[2], i + 1) ELSE {})
                    \cup (IF j > i + 2 /\ IsP(tk(i), "[") /\ IsP(tk(i + 1), "]") THEN Fn("[]", i + 2) ELSE {})
                    \cup (IF j > i + 2 /\ IsP(tk(i), "{") /\ IsP(tk(i + 1), "}") THEN Fn("{}", i + 2) ELSE {})
      List == IF j > i + 1 /\ IsP(tk(i), "[") /\ IsP(tk(j), "]")
              THEN { <<MkList(s, A("[]")), 0>> : s \in ArgSeqs(i + 1, j - 1) }
                   \cup UNION { { <<MkList(s, t), 0>> : s \in ArgSeqs(i + 1, k - 1), t \in ArgTerm(k + 1, j - 1) } : k \in { k \in (i + 2)..(j - 2) : IsP(tk(k), "|") } }
              ELSE {}
      Curly == IF j > i + 1 /\ IsP(tk(i), "{") /\ IsP(tk(j), "}") THEN { <<C("{}", <<e[1]>>), 0>> : e \in P(i + 1, j - 1) } ELSE {}
      \* prefix operator: not when an open-ct follows (that is functional notation) nor for - before a numeric literal
      Prefix == IF j > i /\ IsName(tk(i)) /\ ~IsP(tk(i + 1), "(ct") /\ ~MinusNum(i)
                THEN UNION { { <<C(d[1], <<e[1]>>), d[3]>> : e \in Below(P(i + 1, j), RightMax(d)) } : d \in Defs(tk(i)[2], "pre") }
                ELSE {}
      Infix == UNION { UNION { { <<C(d[1], <<l[1], r[1]>>), d[3]>> : l \in Below(P(i, k - 1), LeftMax(d)), r \in Below(P(k + 1, j), RightMax(d)) }
                               : d \in Defs(InfixName(tk(k)), "inf") } : k \in (i + 1)..(j - 1) }
      Postfix == IF j > i /\ IsName(tk(j))
                 THEN UNION { { <<C(d[1], <<e[1]>>), d[3]>> : e \in Below(P(i, j - 1), LeftMax(d)) } : d \in Defs(tk(j)[2], "post") }
                 ELSE {}
  IN Single \cup NegNum \cup Empty \cup Paren \cup Functional \cup List \cup Curly \cup Prefix \cup Infix \cup Postfix

Spans(n, len) == { <<i, i + len - 1>> : i \in 1..(n - len + 1) }
RECURSIVE Build(_, _, _, _, _)
Build(toks, T, mode, M, len) ==
  IF len > Len(toks) THEN M
  ELSE Build(toks, T, mode, M @@ [s \in Spans(Len(toks), len) |-> Compute(toks, T, mode, M, s[1], s[2])], len + 1)

\* every entry has priority <= 1201, which is what a term followed by the end token may have (6.2.1, 6.3.1.3)
Terms(toks, T, mode) == IF toks = <<>> THEN {}
                        ELSE { e[1] : e \in Build(toks, T, mode, [s \in Spans(Len(toks), 1) |-> Compute(toks, T, mode, <<>>, s[1], s[2])], 2)[<<1, Len(toks)>>] }
Strict(toks, T) == Terms(toks, T, "strict")
Relaxed(toks, T) == Terms(toks, T, "relaxed")
Loose(toks) == Terms(toks, {}, "loose")
=============================================================================
