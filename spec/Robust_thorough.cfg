SPECIFICATION Spec
CONSTANTS NT = 4
          SMALLSHAPES = FALSE
INVARIANT Emit
CHECK_DEADLOCK FALSE
