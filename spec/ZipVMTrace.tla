---------------------------- MODULE ZipVMTrace ----------------------------
(* Validation of recorded clause activations of the real VM (code -> spec): every record of the file named by TRACE - the *)
(* compiled clause, the call's arguments, the instructions the VM executed until the head was done, whether it reached   *)
(* the body, and the call's arguments as instantiated afterwards - must be a run of ZipVM.tla (Conforms) and must agree   *)
(* with unification against the head the code denotes (Means).                                                            *)
EXTENDS ZipVM, TLC
Trace == ndJsonDeserialize(IOEnv.TRACE)
VARIABLE l
TInit == l = 1 /\ TLCSet(1, 1)
TStep == /\ l <= Len(Trace)
         /\ \/ Trace[l].ev = "init"
            \/ Trace[l].ev = "activation" /\ Conforms(Trace[l]) /\ Means(Trace[l]) /\ ConformsGoal(Trace[l]) /\ MeansGoal(Trace[l])
         /\ l' = l + 1
TSpec == TInit /\ [][TStep]_l
HW == TLCSet(1, IF TLCGet(1) < l THEN l ELSE TLCGet(1))
Accepted == IF TLCGet(1) = Len(Trace) + 1 THEN TRUE
            ELSE PrintT("REJECTED " \o ToString(TLCGet(1)) \o " " \o ToString(Len(Trace))) /\ FALSE
=============================================================================
