---------------------------- MODULE GenSyntax ----------------------------
\* Enumerates every token sequence of <= NMAX tokens over an alphabet, under a named operator table, and emits for each
\* the sets Strict and Relaxed of Syntax.tla. The replayer writes the tokens as text (one blank between tokens, none before
\* an open-ct), sets up the same table through op/3, reads the text with the real parser and checks the reader contract.
EXTENDS Syntax, Json

CONSTANTS TABLE,   \* "default" | "user" | "same" | "both"
          ALPHA,   \* "ops" | "punct"
          NMAX

N(s) == <<"n", s>>
Pn(s) == <<"p", s>>
\* ',' is always there; '|' as bootstrap.pl defines it
Fixed == { <<",", "inf", 1000, "xfy">>, <<"|", "inf", 1105, "xfy">> }
Table ==
  CASE TABLE = "default" -> Fixed \cup { <<"-", "pre", 200, "fy">>, <<"-", "inf", 500, "yfx">>, <<"=", "inf", 700, "xfx">>, <<":-", "pre", 1200, "fx">>, <<":-", "inf", 1200, "xfx">> }
    [] TABLE = "user"    -> Fixed \cup { <<"fy1", "pre", 300, "fy">>, <<"fx1", "pre", 650, "fx">>, <<"xfx1", "inf", 700, "xfx">>, <<"xfy1", "inf", 200, "xfy">>,
                                         <<"yfx1", "inf", 400, "yfx">>, <<"xf1", "post", 100, "xf">>, <<"yf1", "post", 150, "yf">> }
    \* every class at one priority: associativity alone decides (and ISO is ambiguous for fy/yfx, xfy/yf, ...)
    [] TABLE = "same"    -> Fixed \cup { <<"fy1", "pre", 400, "fy">>, <<"fx1", "pre", 400, "fx">>, <<"xfx1", "inf", 400, "xfx">>, <<"xfy1", "inf", 400, "xfy">>,
                                         <<"yfx1", "inf", 400, "yfx">>, <<"xf1", "post", 400, "xf">>, <<"yf1", "post", 400, "yf">> }
    \* names in two classes: prefix and infix (-), prefix and postfix (pp), high-priority prefix, operators above 999
    [] TABLE = "both"    -> Fixed \cup { <<"-", "pre", 200, "fy">>, <<"-", "inf", 500, "yfx">>, <<"pp", "pre", 300, "fx">>, <<"pp", "post", 300, "xf">>,
                                         <<"hi", "pre", 1100, "fy">>, <<"hi", "inf", 1050, "xfy">> }
Names == { d[1] : d \in Table } \ {",", "|"}
Alphabet ==
  CASE ALPHA = "ops"   -> { N(s) : s \in Names \cup {"a"} } \cup { <<"i", 1>>, Pn("("), Pn(")") }
    \* punctuation with one prefix/infix operator, one plain atom, a number and a variable
    [] ALPHA = "punct" -> { N("a"), N("-"), <<"i", 1>>, <<"v", 1>>, Pn("("), Pn("(ct"), Pn(")"), Pn("["), Pn("]"), Pn("{"), Pn("}"), Pn(","), Pn("|") }

VARIABLES toks, out, done
vars == <<toks, out, done>>
Init == toks \in UNION { [1..k -> Alphabet] : k \in 1..NMAX } /\ out = <<>> /\ done = FALSE
Next == ~done /\ done' = TRUE /\ out' = [strict |-> Strict(toks, Table), relaxed |-> Relaxed(toks, Table), loose |-> Loose(toks)] /\ UNCHANGED toks
Spec == Init /\ [][Next]_vars

\* U1: the ISO grammar is contained in its relaxation, and that in the table-free grammar
StrictInRelaxed == done => out.strict \subseteq out.relaxed /\ out.relaxed \subseteq out.loose
Emit == done => PrintT("CASE " \o ToJson([toks |-> toks, strict |-> out.strict, relaxed |-> out.relaxed, loose |-> out.loose]))
\* the table, once, for the replayer
ASSUME PrintT("TABLEDEF " \o ToJson(Table))

\* unit tests of the grammar (evaluated once at start-up)
T0 == Fixed \cup { <<"-", "pre", 200, "fy">>, <<"-", "inf", 500, "yfx">>, <<"=", "inf", 700, "xfx">>, <<"xf1", "post", 100, "xf">>, <<"yf1", "post", 150, "yf">>, <<"fx1", "pre", 650, "fx">> }
a == N("a")
ta == A("a")
ASSUME Strict(<<a, N("="), a, N("="), a>>, T0) = {} /\ Relaxed(<<a, N("="), a, N("="), a>>, T0) = {}                 \* xfx does not associate
ASSUME Strict(<<a, N("-"), a, N("-"), a>>, T0) = { C("-", <<C("-", <<ta, ta>>), ta>>) }                             \* yfx associates to the left
ASSUME Strict(<<N("-"), <<"i", 1>>>>, T0) = { <<"i", -1>> }                                                         \* negative numeral
ASSUME Strict(<<N("-"), Pn("("), <<"i", 1>>, Pn(")")>>, T0) = { C("-", << <<"i", 1>> >>) }                           \* - (1)
ASSUME Strict(<<N("-"), Pn("(ct"), <<"i", 1>>, Pn(",") , a, Pn(")")>>, T0) = { C("-", << <<"i", 1>>, ta >>) }        \* -(1,a)
ASSUME Strict(<<N("-"), N("="), a>>, T0) = {} /\ Relaxed(<<N("-"), N("="), a>>, T0) = { C("=", <<A("-"), ta>>) }     \* operator atom as operand
ASSUME Strict(<<a, N("xf1"), N("xf1")>>, T0) = {} /\ Strict(<<a, N("yf1"), N("yf1")>>, T0) = { C("yf1", <<C("yf1", <<ta>>)>>) }
ASSUME Strict(<<N("fx1"), N("fx1"), a>>, T0) = {}
ASSUME Strict(<<Pn("["), N("-"), Pn("|"), N("-"), Pn("]")>>, T0) = { C(".", <<A("-"), A("-")>>) }
ASSUME Strict(<<a, Pn("(ct"), N("-"), Pn(","), a, N("="), a, Pn(")")>>, T0) = { C("a", <<A("-"), C("=", <<ta, ta>>)>>) }
ASSUME Strict(<<a, Pn("("), a, Pn(")")>>, T0) = {}                                                                    \* a (a): no functional notation after layout
ASSUME Strict(<<Pn("{"), a, Pn(","), a, Pn("}")>>, T0) = { C("{}", <<C(",", <<ta, ta>>)>>) }
=============================================================================
