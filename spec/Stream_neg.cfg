SPECIFICATION BadSpec
CONSTANTS N = 2
          SRCSET = "curated"
PROPERTY PeekKeeps
CHECK_DEADLOCK FALSE
