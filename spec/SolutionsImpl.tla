---------------------------- MODULE SolutionsImpl ----------------------------
(* C12 at the level of the implementation: the consumer (API calls Next and Close; Scan and Err *)
(* touch no channel) and the search goroutine started by QueryContext, synchronised over        *)
(*   more : buffered channel of capacity 1 (consumer -> goroutine), closed by Close             *)
(*   next : unbuffered channel (goroutine -> consumer), closed when the goroutine returns       *)
(* with Go channel semantics: a send on a full channel blocks, a receive on a closed and empty  *)
(* channel returns the zero value at once, a rendezvous needs both sides.                       *)
(* REMEMBER = TRUE models Next remembering that the search has ended (s.done); with FALSE (the  *)
(* original code) a second Next after the end blocks for ever: the negative configuration.      *)
EXTENDS Integers, Sequences, TLC
CONSTANTS K,          \* number of answers of the query
          ENDS,       \* "end" | "error" | "inf"
          CALLS,      \* bound on the number of API calls
          REMEMBER
VARIABLES more, moreClosed, nextClosed,
          rendez,     \* TRUE while the goroutine is blocked in `next <- env`
          g,          \* goroutine: "recvFirst" | "run" | "send" | "waitMore" | "exit" | "done"
          left,       \* answers still to produce (K for "inf": never decremented)
          err,        \* sols.err set by the goroutine
          c,          \* consumer: "idle" | "nextSend" | "nextRecv"
          closed, done,     \* Solutions.closed, Solutions.done
          calls, trues, lastRet
vars == <<more, moreClosed, nextClosed, rendez, g, left, err, c, closed, done, calls, trues, lastRet>>

Init == /\ more = <<>> /\ moreClosed = FALSE /\ nextClosed = FALSE /\ rendez = FALSE
        /\ g = "recvFirst" /\ left = K /\ err = FALSE /\ c = "idle" /\ closed = FALSE /\ done = FALSE
        /\ calls = 0 /\ trues = 0 /\ lastRet = "none"

\* ---- the search goroutine
GRecv(pcTrue, pcFalse) ==
  \/ /\ more # <<>> /\ more' = Tail(more) /\ g' = (IF Head(more) THEN pcTrue ELSE pcFalse)
     /\ UNCHANGED <<moreClosed, nextClosed, rendez, left, err, c, closed, done, calls, trues, lastRet>>
  \/ /\ more = <<>> /\ moreClosed /\ g' = pcFalse
     /\ UNCHANGED <<more, moreClosed, nextClosed, rendez, left, err, c, closed, done, calls, trues, lastRet>>
GRecvFirst == g = "recvFirst" /\ GRecv("run", "exit")
\* Force runs the search up to the next answer, or to its end
GRun == /\ g = "run"
        /\ IF ENDS = "inf" \/ left > 0
           THEN /\ g' = "send" /\ rendez' = TRUE /\ left' = (IF ENDS = "inf" THEN left ELSE left - 1) /\ UNCHANGED err
           ELSE /\ g' = "exit" /\ err' = (ENDS = "error") /\ UNCHANGED <<rendez, left>>
        /\ UNCHANGED <<more, moreClosed, nextClosed, c, closed, done, calls, trues, lastRet>>
GRecvMore == g = "waitMore" /\ GRecv("run", "exit")          \* false: the continuation returns Bool(true), Force returns
GExit == /\ g = "exit" /\ g' = "done" /\ nextClosed' = TRUE   \* deferred close(next)
         /\ UNCHANGED <<more, moreClosed, rendez, left, err, c, closed, done, calls, trues, lastRet>>

\* ---- the consumer
CNextStart == /\ c = "idle" /\ calls < CALLS /\ calls' = calls + 1
              /\ IF closed \/ (REMEMBER /\ done) THEN c' = "idle" /\ lastRet' = "false" ELSE c' = "nextSend" /\ lastRet' = "pending"
              /\ UNCHANGED <<more, moreClosed, nextClosed, rendez, g, left, err, closed, done, trues>>
CNextSend == /\ c = "nextSend" /\ Len(more) < 1 /\ ~moreClosed
             /\ more' = Append(more, TRUE) /\ c' = "nextRecv"
             /\ UNCHANGED <<moreClosed, nextClosed, rendez, g, left, err, closed, done, calls, trues, lastRet>>
CNextRecv == /\ c = "nextRecv"
             /\ \/ /\ rendez /\ rendez' = FALSE /\ g' = "waitMore" /\ c' = "idle" /\ trues' = trues + 1 /\ lastRet' = "true"
                   /\ UNCHANGED <<more, moreClosed, nextClosed, left, err, closed, done, calls>>
                \/ /\ ~rendez /\ nextClosed /\ c' = "idle" /\ done' = TRUE /\ lastRet' = "false"
                   /\ UNCHANGED <<more, moreClosed, nextClosed, rendez, g, left, err, closed, calls, trues>>
CClose == /\ c = "idle" /\ calls < CALLS /\ calls' = calls + 1
          /\ IF closed THEN lastRet' = "ErrClosed" /\ UNCHANGED <<moreClosed, closed>>
                       ELSE lastRet' = "nil" /\ moreClosed' = TRUE /\ closed' = TRUE
          /\ UNCHANGED <<more, nextClosed, rendez, g, left, err, c, done, trues>>

GNext == GRecvFirst \/ GRun \/ GRecvMore \/ GExit
CNext == CNextStart \/ CNextSend \/ CNextRecv \/ CClose
Next == GNext \/ CNext
Spec == Init /\ [][Next]_vars /\ WF_vars(GNext) /\ WF_vars(CNextSend \/ CNextRecv)

\* "never blocks": while the consumer is inside an API call some step (of either party) is enabled
NeverBlocks == c # "idle" => ENABLED Next
\* the search goroutine computes only while the consumer is blocked inside Next: the VM is never used by both
Handshake == g = "run" => c = "nextRecv"
\* answers are counted exactly
Counted == /\ trues <= (IF ENDS = "inf" THEN CALLS ELSE K)
           /\ (ENDS # "inf" => trues = K - left - (IF rendez THEN 1 ELSE 0))
\* no search step after Close
StopsOnClose == [][closed /\ c = "idle" => g' # "run" \/ g = "run"]_vars
\* the error is visible to the consumer only after the goroutine has finished (happens-before through close(next))
ErrAfterDone == (err /\ done) => nextClosed
\* the goroutine terminates once the iterator is closed or the search has ended
Terminates == (closed \/ (ENDS # "inf" /\ left = 0 /\ g = "exit")) ~> (g = "done")
=============================================================================
