SPECIFICATION Spec
CONSTANT N = 2
INVARIANT Emit
PROPERTY Isolated
CHECK_DEADLOCK FALSE
