----------------------------- MODULE GenCutHead -----------------------------
(* C03 (and C01), heads x cuts: whether a cut runs depends on whether the head unified, and a head made of variables only   *)
(* may still fail to unify (a repeated variable). The program is                                                           *)
(*     g(a). g(b).  w(_).   p(H1, H1') :- B1.   p(H2, H2') :- B2.   p(_, _) :- w(last).                                     *)
(* over every pair of head shapes (distinct variables, a repeated variable, constants, a variable under a functor) and      *)
(* every pair of bodies that cut first, cut late or not at all, called with arguments that do or do not unify: a clause     *)
(* whose head does not unify cuts nothing - the later clauses are still tried.                                             *)
EXTENDS Engine, Json
X == V(1)
Y == V(2)
a == A("a")
b == A("b")
G(t) == C("g", <<t>>)
Wr(t) == C("w", <<t>>)
Conj2(s, t) == C(",", <<s, t>>)
P(s, t) == C("p", <<s, t>>)
Heads == { <<X, X>>, <<X, Y>>, <<a, X>>, <<X, a>>, <<C("f", <<X>>), X>>, <<X, Cons(X, Y)>>, <<a, a>> }
Bodies == { A("!"), Conj2(A("!"), FailA), Conj2(A("!"), Wr(X)), Wr(X), Conj2(G(X), A("!")), Conj2(Wr(X), Conj2(A("!"), FailA)) }
Calls == { P(a, b), P(a, a), P(V(1), V(1)), P(V(1), V(2)), P(b, V(1)), P(C("f", <<a>>), a), P(b, Cons(b, Nil)), P(V(1), b) }
MkCl(i, h, bd) == LET t == C(":-", <<P(h[1], h[2]), bd>>) vs == TermVars(t) r == Renum(t, vs, 0)
                  IN [id |-> i, head |-> r[3][1], body |-> r[3][2], nv |-> Len(vs)]
Db(h1, b1, h2, b2) ==
  << [key |-> <<"g", 1>>, dyn |-> FALSE, cls |-> << [id |-> 1, head |-> G(a), body |-> TrueA, nv |-> 0], [id |-> 2, head |-> G(b), body |-> TrueA, nv |-> 0] >>],
     [key |-> <<"w", 1>>, dyn |-> FALSE, cls |-> << [id |-> 3, head |-> Wr(V(1)), body |-> TrueA, nv |-> 1] >>],
     [key |-> <<"p", 2>>, dyn |-> FALSE, cls |-> << MkCl(4, h1, b1), MkCl(5, h2, b2), [id |-> 6, head |-> P(V(1), V(2)), body |-> Wr(A("last")), nv |-> 2] >>] >>
VARIABLES st, hist, h1, b1, h2, b2, call
gvars == <<st, hist, h1, b1, h2, b2, call>>
GInit == /\ h1 \in Heads /\ b1 \in Bodies /\ h2 \in Heads /\ b2 \in Bodies /\ call \in Calls
         /\ st = InitState(Db(h1, b1, h2, b2), call, 2)
         /\ hist = <<>>
GNext == /\ ~Terminal(st)
         /\ \E t \in Steps(st) : /\ ~(st.status = "answer" /\ t.status = "closed")
                                 /\ st' = t
                                 /\ hist' = IF t.ev # NoEv THEN Append(hist, t.ev) ELSE hist
         /\ UNCHANGED <<h1, b1, h2, b2, call>>
GSpec == GInit /\ [][GNext]_gvars
Emit == Judged(st) => PrintT("CASE " \o ToJson([db |-> Db(h1, b1, h2, b2), query |-> call, qv |-> 2, events |-> hist]))
Bound == Len(hist) < 60 /\ Len(st.bind) < 200
\* a cut truncates the choice-point stack to the frame's barrier (as in GenCut)
IsCutState(s) == s.status = "run" /\ s.goals # <<>> /\ ~IsCtl(s.goals[1].g) /\ Walk(s.goals[1].g, s.bind) = A("!")
CutExact == [][IsCutState(st) => /\ st'.cps = SubSeq(st.cps, 1, st.goals[1].cb)
                                 /\ st'.goals = Tail(st.goals)
                                 /\ st'.bind = st.bind]_gvars
=============================================================================
