--------------------------------- MODULE Dcg ---------------------------------
(* C17: DCG translation after ISO/IEC DTR 13211-3. The draft DEFINES the meaning of a        *)
(* grammar by this translation, so executed by Engine.tla (whose conjunction is transparent *)
(* to cut, which is what makes !//0 commit to the rule) it is the reference semantics.      *)
(* Body(b, s0, s, nx) translates grammar body b threading s0/s; nx = next free variable     *)
(* index (clause-local numbering). Returns [g |-> goal, nx |-> next index].                 *)
(* An independent formulation, Parse (plain derivation, no translation, no machine), is the  *)
(* cross-check for grammars without cut, \+, {}, call//N and if-then-else.                   *)
EXTENDS Terms

Eq(x, y) == C("=", <<x, y>>)
And(x, y) == C(",", <<x, y>>)
RECURSIVE Partial(_,_)
Partial(elems, tail) == IF elems = <<>> THEN tail ELSE Cons(elems[1], Partial(Tail(elems), tail))

IsList(t) == t = Nil \/ (IsCmp(t) /\ t[2] = "." /\ Len(t[3]) = 2)

RECURSIVE Body(_,_,_,_)
Body(b, s0, s, nx) ==
  IF IsVar(b) THEN [g |-> C("phrase", <<b, s0, s>>), nx |-> nx]
  ELSE IF IsList(b) THEN [g |-> Eq(s0, Partial(ListView(b, <<>>).elems, s)), nx |-> nx]          \* terminals
  ELSE IF b = A("!") THEN [g |-> And(A("!"), Eq(s0, s)), nx |-> nx]
  ELSE IF b = A("[]") THEN [g |-> Eq(s0, s), nx |-> nx]
  ELSE IF IsCmp(b) /\ b[2] = "," /\ Len(b[3]) = 2 THEN
       LET m == V(nx) l == Body(b[3][1], s0, m, nx + 1) r == Body(b[3][2], m, s, l.nx) IN [g |-> And(l.g, r.g), nx |-> r.nx]
  ELSE IF IsCmp(b) /\ b[2] \in {";", "|"} /\ Len(b[3]) = 2 THEN
       LET l == Body(b[3][1], s0, s, nx) r == Body(b[3][2], s0, s, l.nx) IN [g |-> C(";", <<l.g, r.g>>), nx |-> r.nx]
  ELSE IF IsCmp(b) /\ b[2] = "->" /\ Len(b[3]) = 2 THEN
       LET m == V(nx) l == Body(b[3][1], s0, m, nx + 1) r == Body(b[3][2], m, s, l.nx) IN [g |-> C("->", <<l.g, r.g>>), nx |-> r.nx]
  ELSE IF IsCmp(b) /\ b[2] = "{}" /\ Len(b[3]) = 1 THEN [g |-> And(b[3][1], Eq(s0, s)), nx |-> nx]
  ELSE IF IsCmp(b) /\ b[2] = "\\+" /\ Len(b[3]) = 1 THEN
       LET l == Body(b[3][1], s0, V(nx), nx + 1) IN [g |-> And(C("\\+", <<l.g>>), Eq(s0, s)), nx |-> l.nx]
  ELSE IF IsCmp(b) /\ b[2] = "call" THEN [g |-> C("call", b[3] \o <<s0, s>>), nx |-> nx]
  ELSE [g |-> C(Name(b), Args(b) \o <<s0, s>>), nx |-> nx]                                        \* non-terminal

\* rule: Head --> B   or   Head, Pushback --> B ; variables of the rule are numbered 1..nv, new ones from nv+1
Rule(head, pushback, b, nv) ==
  LET s0 == V(nv + 1) s == V(nv + 2) IN
  IF pushback = <<>> THEN
     LET t == Body(b, s0, s, nv + 3) IN [head |-> C(Name(head), Args(head) \o <<s0, s>>), body |-> t.g, nv |-> t.nx - 1]
  ELSE LET s1 == V(nv + 3) t == Body(b, s0, s1, nv + 4) IN
       [head |-> C(Name(head), Args(head) \o <<s0, s>>), body |-> And(t.g, Eq(s, Partial(pushback, s1))), nv |-> t.nx - 1]

-----------------------------------------------------------------------------
\* Independent formulation: the set of remainders after deriving body b from input s (a sequence of terminals) in the
\* grammar gr (a function: non-terminal name -> sequence of rule bodies; rules without arguments or push-back).
RECURSIVE Parse(_,_,_,_)
Parse(gr, b, s, fuel) ==
  IF fuel = 0 THEN {}
  ELSE IF b = Nil THEN {s}
  ELSE IF IsList(b) THEN LET ts == ListView(b, <<>>).elems IN
                         IF Len(ts) <= Len(s) /\ SubSeq(s, 1, Len(ts)) = ts THEN {SubSeq(s, Len(ts) + 1, Len(s))} ELSE {}
  ELSE IF IsCmp(b) /\ b[2] = "," THEN UNION { Parse(gr, b[3][2], r, fuel - 1) : r \in Parse(gr, b[3][1], s, fuel - 1) }
  ELSE IF IsCmp(b) /\ b[2] \in {";", "|"} THEN Parse(gr, b[3][1], s, fuel - 1) \cup Parse(gr, b[3][2], s, fuel - 1)
  ELSE UNION { Parse(gr, gr[Name(b)][i], s, fuel - 1) : i \in 1..Len(gr[Name(b)]) }      \* non-terminal
=============================================================================
