SPECIFICATION GSpec
CHECK_DEADLOCK FALSE
INVARIANT Emit
CONSTRAINT Bound
