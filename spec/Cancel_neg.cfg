SPECIFICATION Spec
CONSTANTS MaxDepth = 3
          InheritCtx = FALSE
          MaxSteps = 7
INVARIANT NoNewWorkAfterCancel
PROPERTY AtMostOne
PROPERTY Prompt
CHECK_DEADLOCK FALSE
