------------------------------- MODULE ZipVM -------------------------------
(* The head phase of the ZIP virtual machine (engine/vm.go, exec): how the get instructions of a compiled clause consume   *)
(* the arguments of a call. State: the program counter, the current argument list, a stack of suspended argument lists    *)
(* (one per open compound), the binding store. A get instruction unifies the next argument with a constant, a clause      *)
(* variable, or a structure whose arguments are fresh variables that become the new argument list; pop resumes the        *)
(* suspended list; enter / exit end the head. Run(rec) executes the head of one recorded clause activation.               *)
(*                                                                                                                         *)
(* Two things are checked on records of the real VM (ZipVMTrace.tla):                                                     *)
(*   conformance  the instructions executed, the outcome (reached the body / did not unify) and the instantiation of the  *)
(*                call's arguments afterwards are the ones this machine produces;                                         *)
(*   meaning      the machine agrees with the term-level semantics: running the head code is unifying the call's          *)
(*                arguments with the head arguments that Decompile.tla reads from the same code (Terms.tla's unifier).    *)
EXTENDS Decompile

\* a record: code (sequence of <<op, operand>>), arity, nvars, args (the call's arguments, variables numbered 1..nargvars)
\* store layout: 1..nargvars the variables of the call, then nvars clause variables, then the fresh variables of get_functor etc.
NArgVars(rec) == Len(TermVars(C("$", rec.args)))
ClauseVar(rec, i) == V(NArgVars(rec) + i + 1)          \* operand i of get_var is 0-based
Init0(rec) == [pc |-> 1, args |-> rec.args, astack |-> <<>>, bind |-> Fresh(NArgVars(rec) + rec.nvars), ok |-> TRUE, path |-> <<>>]
FreshVars(s, n) == [k \in 1..n |-> V(Len(s.bind) + k)]
Extend(s, n) == s.bind \o Fresh(n)
RECURSIVE PartialOf(_, _)
PartialOf(elems, tail) == IF elems = <<>> THEN tail ELSE Cons(elems[1], PartialOf(Tail(elems), tail))

Step(rec, s) ==
  LET c == rec.code
      op == Op(c, s.pc)
      a == Arg(c, s.pc)
      p == Append(s.path, op)
      \* unify the next argument with t under the store b; args / astack as given
      Get(t, b, args, astack) == LET u == UnifyM(Head(s.args), t, b, 0) IN
                                 [pc |-> s.pc + 1, args |-> args, astack |-> astack, bind |-> u.b, ok |-> u.ok, path |-> p]
  IN CASE op = "get_const" -> Get(a, s.bind, Tail(s.args), s.astack)
       [] op = "get_var" -> Get(ClauseVar(rec, a[2]), s.bind, Tail(s.args), s.astack)
       [] op = "get_functor" -> LET vs == FreshVars(s, PIArity(a)) IN Get(C(PIName(a), vs), Extend(s, PIArity(a)), vs, Append(s.astack, Tail(s.args)))
       [] op = "get_list" -> LET vs == FreshVars(s, a[2]) IN Get(MkList(vs), Extend(s, a[2]), vs, Append(s.astack, Tail(s.args)))
       \* the fresh variables of get_partial: the tail first, then the elements
       [] op = "get_partial" -> LET vs == FreshVars(s, a[2] + 1) IN Get(PartialOf(Tail(vs), vs[1]), Extend(s, a[2] + 1), vs, Append(s.astack, Tail(s.args)))
       [] op = "pop" -> [s EXCEPT !.pc = s.pc + 1, !.args = s.astack[Len(s.astack)], !.astack = SubSeq(s.astack, 1, Len(s.astack) - 1), !.path = p]
       [] OTHER -> [s EXCEPT !.ok = FALSE, !.path = Append(p, "stuck")]        \* no head instruction: malformed code

RECURSIVE RunFrom(_, _)
RunFrom(rec, s) == IF ~s.ok THEN s
                   ELSE IF Op(rec.code, s.pc) \in {"enter", "exit"} THEN [s EXCEPT !.path = Append(s.path, Op(rec.code, s.pc))]
                   ELSE IF s.args = <<>> /\ Op(rec.code, s.pc) # "pop" THEN [s EXCEPT !.ok = FALSE, !.path = Append(s.path, "stuck")]
                   ELSE RunFrom(rec, Step(rec, s))
Run(rec) == RunFrom(rec, Init0(rec))

\* --- the body phase up to the first call: the put instructions build the arguments of the goal. A put_functor / put_list /
\* put_partial suspends the argument list being built and starts the arguments of the structure; pop closes the structure and
\* appends it to the suspended list (the implementation appends the structure first and fills its arguments in place).
PutStep(rec, s) ==
  LET c == rec.code
      op == Op(c, s.pc)
      a == Arg(c, s.pc)
      p == Append(s.path, op)
      Open(kind, name, n) == [s EXCEPT !.pc = s.pc + 1, !.astack = Append(s.astack, [outer |-> s.args, kind |-> kind, name |-> name, n |-> n]), !.args = <<>>, !.path = p]
  IN CASE op = "put_const" -> [s EXCEPT !.pc = s.pc + 1, !.args = Append(s.args, a), !.path = p]
       [] op = "put_var" -> [s EXCEPT !.pc = s.pc + 1, !.args = Append(s.args, ClauseVar(rec, a[2])), !.path = p]
       [] op = "put_functor" -> Open("f", PIName(a), PIArity(a))
       [] op = "put_list" -> Open("l", "", a[2])
       [] op = "put_partial" -> Open("p", "", a[2] + 1)
       [] op = "pop" -> IF s.astack = <<>> THEN [s EXCEPT !.ok = FALSE, !.path = Append(p, "stuck")]
                        ELSE LET f == s.astack[Len(s.astack)]
                                 t == IF Len(s.args) # f.n THEN Bad
                                      ELSE IF f.kind = "f" THEN C(f.name, s.args)
                                      ELSE IF f.kind = "l" THEN MkList(s.args)
                                      ELSE PartialOf(Tail(s.args), s.args[1])          \* the tail is built first
                             IN [s EXCEPT !.pc = s.pc + 1, !.astack = SubSeq(s.astack, 1, Len(s.astack) - 1), !.args = Append(f.outer, t), !.path = p]
       [] op = "cut" -> [s EXCEPT !.pc = s.pc + 1, !.path = p]                  \* (what a cut removes is Engine.tla's business)
       [] OTHER -> [s EXCEPT !.ok = FALSE, !.path = Append(p, "stuck")]
RECURSIVE PutRun(_, _)
PutRun(rec, s) == IF ~s.ok THEN s
                  ELSE IF Op(rec.code, s.pc) \in {"call", "exit"} THEN [s EXCEPT !.path = Append(s.path, Op(rec.code, s.pc))]
                  ELSE PutRun(rec, PutStep(rec, s))
\* from the state in which the head was done (at the enter instruction) to the first call
FirstGoal(rec) == LET h == Run(rec) IN PutRun(rec, [h EXCEPT !.pc = h.pc + 1, !.args = <<>>, !.astack = <<>>, !.path = <<>>])

\* --- conformance of a recorded activation ---
ArgsAfter(rec, s) == C("$", [i \in 1..Len(rec.args) |-> Resolve(rec.args[i], s.bind)])
Conforms(rec) == LET s == Run(rec) IN
                 /\ s.path = rec.path
                 /\ s.ok = rec.ok
                 /\ (s.ok => Variant(ArgsAfter(rec, s), C("$", rec.after)))
\* the record also has the first goal the activation called (goal: its name, goalargs: its arguments, path2: the instructions)
HasGoal(rec) == "goal" \in DOMAIN rec
Joint(rec, s, gargs) == C("$", [i \in 1..Len(rec.args) |-> Resolve(rec.args[i], s.bind)] \o [i \in 1..Len(gargs) |-> Resolve(gargs[i], s.bind)])
ConformsGoal(rec) == HasGoal(rec) =>
                       LET g == FirstGoal(rec) IN
                       /\ g.ok /\ g.path = rec.path2
                       /\ Op(rec.code, g.pc) = "call" /\ PIName(Arg(rec.code, g.pc)) = rec.goal /\ PIArity(Arg(rec.code, g.pc)) = Len(g.args)
                       /\ Variant(Joint(rec, g, g.args), C("$", rec.after \o rec.goalargs))
\* ... and it is the first goal of the body that Decompile reads from the code (cuts skipped), instantiated by the head unification
MeansGoal(rec) == HasGoal(rec) =>
                    LET g == FirstGoal(rec)
                        h == Run(rec)
                        goals == SelectSeq(ParseGoals(rec.code, h.pc + 1), LAMBDA t : t # A("!"))
                        first == Shift(goals[1], NArgVars(rec))
                    IN /\ goals # <<>>
                       /\ Variant(Joint(rec, g, g.args), Joint(rec, g, Args(first)))
\* --- meaning: the head code is unification with the head it denotes ---
HeadArgs(rec) == ParseArgs(rec.code, 1, rec.arity, "get").ts           \* variables 1..nvars (Decompile numbers clause variables from 1)
Means(rec) == LET s == Run(rec)
                  n == NArgVars(rec)
                  head == [i \in 1..rec.arity |-> Shift(HeadArgs(rec)[i], n)]
                  u == UnifyM(C("$", rec.args), C("$", head), Fresh(n + rec.nvars), 0)
              IN /\ u.ok = s.ok
                 /\ (s.ok => Variant(ArgsAfter(rec, s), C("$", [i \in 1..Len(rec.args) |-> Resolve(rec.args[i], u.b)])))
=============================================================================
