SPECIFICATION BadSpec
CONSTANT D = 0
INVARIANT MCInv
CHECK_DEADLOCK FALSE
