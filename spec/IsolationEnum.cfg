SPECIFICATION ESpec
CONSTANT N = 5
INVARIANT EEmit
INVARIANT EnumStable
CHECK_DEADLOCK FALSE
