------------------------------ MODULE Isolation ------------------------------
(* C14, part 1: the process-wide state shared by all interpreters - the atom table (a map name -> *)
(* atom and a slice atom -> name, guarded by a read/write lock) and the variable counter (atomic   *)
(* add) - under concurrent goroutines, at the granularity of the code: lock / look up / write map  *)
(* / append name / unlock; read lock / read name / unlock; add.                                    *)
(* UseLock = FALSE and AtomicAdd = FALSE are the negative configurations.                          *)
EXTENDS Integers, Sequences, FiniteSets, TLC

CONSTANTS UseLock, AtomicAdd, NG
G == 1..NG
Names == {"ab", "cd"}
\* each goroutine interns names, reads the text of an atom it got ("str") and draws variables ("var")
Script == [g \in G |-> CASE g = 1 -> <<"ab", "cd", "var">> [] g = 2 -> <<"ab", "var", "str", "cd">> [] OTHER -> <<"cd", "str", "var">>]

VARIABLES names,     \* sequence: names[id] = text
          atoms,     \* function Names -> id or 0
          writer,    \* goroutine holding the write lock, or 0
          readers,   \* set of goroutines holding the read lock
          pc, i, tmp, got,   \* per goroutine: program counter, script index, local id, results
          counter    \* variable counter
vars == <<names, atoms, writer, readers, pc, i, tmp, got, counter>>

Init == /\ names = <<>> /\ atoms = [n \in Names |-> 0] /\ writer = 0 /\ readers = {} /\ counter = 0
        /\ pc = [g \in G |-> "next"] /\ i = [g \in G |-> 1] /\ tmp = [g \in G |-> 0] /\ got = [g \in G |-> <<>>]

Cur(g) == Script[g][i[g]]
Step(g, p) == pc' = [pc EXCEPT ![g] = p]
LastAtom(g) == LET as == SelectSeq(got[g], LAMBDA r : r[1] \in Names) IN IF as = <<>> THEN 0 ELSE as[Len(as)][2]

Dispatch(g) == /\ pc[g] = "next" /\ i[g] <= Len(Script[g])
               /\ Step(g, CASE Cur(g) = "var" -> "read_counter" [] Cur(g) = "str" -> "rlock" [] OTHER -> "lock")
               /\ UNCHANGED <<names, atoms, writer, readers, i, tmp, got, counter>>
\* NewAtom
Lock(g) == /\ pc[g] = "lock" /\ (UseLock => writer = 0 /\ readers = {})
           /\ writer' = IF UseLock THEN g ELSE writer
           /\ Step(g, "lookup") /\ UNCHANGED <<names, atoms, readers, i, tmp, got, counter>>
Lookup(g) == /\ pc[g] = "lookup"
             /\ IF atoms[Cur(g)] # 0 THEN /\ tmp' = [tmp EXCEPT ![g] = atoms[Cur(g)]] /\ Step(g, "unlock")
                ELSE /\ tmp' = [tmp EXCEPT ![g] = Len(names) + 1] /\ Step(g, "write_map")
             /\ UNCHANGED <<names, atoms, writer, readers, i, got, counter>>
WriteMap(g) == /\ pc[g] = "write_map" /\ atoms' = [atoms EXCEPT ![Cur(g)] = tmp[g]]
               /\ Step(g, "append") /\ UNCHANGED <<names, writer, readers, i, tmp, got, counter>>
AppendName(g) == /\ pc[g] = "append" /\ names' = Append(names, Cur(g))
                 /\ Step(g, "unlock") /\ UNCHANGED <<atoms, writer, readers, i, tmp, got, counter>>
Unlock(g) == /\ pc[g] = "unlock"
             /\ writer' = IF UseLock THEN 0 ELSE writer
             /\ got' = [got EXCEPT ![g] = Append(@, <<Cur(g), tmp[g]>>)]
             /\ i' = [i EXCEPT ![g] = @ + 1] /\ Step(g, "next")
             /\ UNCHANGED <<names, atoms, readers, tmp, counter>>
\* Atom.String: RLock, names[id], RUnlock
RLock(g) == /\ pc[g] = "rlock" /\ (UseLock => writer = 0)
            /\ readers' = IF UseLock THEN readers \cup {g} ELSE readers
            /\ Step(g, "read_name") /\ UNCHANGED <<names, atoms, writer, i, tmp, got, counter>>
ReadName(g) == /\ pc[g] = "read_name"
               /\ LET a == LastAtom(g) IN
                  got' = [got EXCEPT ![g] = Append(@, <<"str", IF a = 0 THEN "none" ELSE IF a <= Len(names) THEN names[a] ELSE "TORN">>)]
               /\ readers' = readers \ {g}
               /\ i' = [i EXCEPT ![g] = @ + 1] /\ Step(g, "next")
               /\ UNCHANGED <<names, atoms, writer, tmp, counter>>
\* NewVariable: atomic.AddInt64, or (negative config) a separate read and write
ReadCounter(g) == /\ pc[g] = "read_counter"
                  /\ IF AtomicAdd THEN /\ counter' = counter + 1
                                       /\ got' = [got EXCEPT ![g] = Append(@, <<"var", counter + 1>>)]
                                       /\ i' = [i EXCEPT ![g] = @ + 1] /\ Step(g, "next") /\ UNCHANGED tmp
                     ELSE /\ tmp' = [tmp EXCEPT ![g] = counter] /\ Step(g, "write_counter") /\ UNCHANGED <<counter, got, i>>
                  /\ UNCHANGED <<names, atoms, writer, readers>>
WriteCounter(g) == /\ pc[g] = "write_counter" /\ counter' = tmp[g] + 1
                   /\ got' = [got EXCEPT ![g] = Append(@, <<"var", tmp[g] + 1>>)]
                   /\ i' = [i EXCEPT ![g] = @ + 1] /\ Step(g, "next")
                   /\ UNCHANGED <<names, atoms, writer, readers, tmp>>

Next == \E g \in G : Dispatch(g) \/ Lock(g) \/ Lookup(g) \/ WriteMap(g) \/ AppendName(g) \/ Unlock(g) \/ RLock(g) \/ ReadName(g) \/ ReadCounter(g) \/ WriteCounter(g)
Spec == Init /\ [][Next]_vars

Results == UNION { { got[g][k] : k \in 1..Len(got[g]) } : g \in G }
\* same name <=> same atom
Interned == \A r1, r2 \in { r \in Results : r[1] \in Names } : (r1[1] = r2[1]) <=> (r1[2] = r2[2])
\* the two halves of the table agree whenever no writer is inside the critical section; ids are dense
TableOK == (writer = 0 /\ \A g \in G : pc[g] \notin {"lookup", "write_map", "append", "unlock"})
             => /\ \A n \in Names : atoms[n] # 0 => (atoms[n] <= Len(names) /\ names[atoms[n]] = n)
                /\ \A k \in 1..Len(names) : atoms[names[k]] = k
\* a reader never sees the map and the slice disagree: the text it reads is the text that was interned
NoTornRead == \A g \in G : \A k \in 1..Len(got[g]) : got[g][k][1] = "str" =>
                 (got[g][k][2] # "TORN" /\ (got[g][k][2] # "none" => \E j \in 1..(k-1) : got[g][j][1] = got[g][k][2]))
\* every variable is handed out once
VarsOnce == \A g1, g2 \in G : \A k1 \in 1..Len(got[g1]), k2 \in 1..Len(got[g2]) :
              (got[g1][k1][1] = "var" /\ got[g2][k2][1] = "var" /\ <<g1, k1>> # <<g2, k2>>) => got[g1][k1][2] # got[g2][k2][2]
=============================================================================
