SPECIFICATION GSpec
CONSTANTS N1 = 2
          N2 = 1
          ND = 1
          NCTX = 4
CHECK_DEADLOCK FALSE
INVARIANT Emit
INVARIANT BarrierOK
PROPERTY CutExact
CONSTRAINT Bound
