-------------------------------- MODULE Robust --------------------------------
(* C05: the outcome contract of the host API and the input spaces it is exercised on.            *)
(* Outcome of handing a text to Exec/Query/read_term, or of calling a registered predicate:       *)
(*   answers | fail | error - where an error raised by a predicate about its arguments is         *)
(*   error(Formal, _) with Formal one of the ISO formal error terms (IsoFormals) - and never       *)
(*   crash (the process aborts), hang (the call does not return) or panic (the error is the        *)
(*   residue of a recovered Go runtime panic).                                                     *)
(* Input spaces enumerated exhaustively in small scope:                                            *)
(*   "tokens": every sequence of at most NT token kinds - hence every truncation of every          *)
(*             well-formed text of that size;                                                      *)
(*   "shapes": for every arity 0..3 every tuple of argument shapes, for arities 4..8 the tuples    *)
(*             that differ from a uniform one in at most one position; the replayer applies each   *)
(*             tuple to every registered predicate of that arity (the list comes from the code).   *)
EXTENDS Integers, Sequences, FiniteSets, TLC, Json
IsoFormals == { <<"instantiation_error", 0>>, <<"type_error", 2>>, <<"domain_error", 2>>, <<"existence_error", 2>>, <<"permission_error", 3>>,
                <<"representation_error", 1>>, <<"evaluation_error", 1>>, <<"resource_error", 1>>, <<"syntax_error", 1>>, <<"system_error", 0>> }
Allowed == {"answers", "fail", "error"}
Forbidden == {"crash", "hang", "panic", "non_iso_error"}
TokenKinds == {"name", "op_minus", "op_neck", "var", "int", "float", "dq", "bq", "open", "close", "open_list", "close_list", "open_curly", "close_curly", "bar", "comma", "end", "quoted", "op_infix"}
Shapes == {"var", "atom", "nil", "int", "maxint", "minint", "float", "compound", "list", "partial", "improper", "charlist", "callable_cut", "stream", "pi", "minus1", "negint", "codes", "pair_list", "op_atom",
           "app_chars", "app_cells"}      \* partial lists made by append/3 from a char list / from './2 cells (other representations of the prefix)
CONSTANTS NT,          \* maximal number of tokens
          SMALLSHAPES  \* TRUE: a 9-shape subset for arity 3 (quick)
Small == {"var", "atom", "int", "maxint", "float", "compound", "list", "partial", "callable_cut"}
ShapesFor(n) == IF n = 3 /\ SMALLSHAPES THEN Small ELSE Shapes
Small5 == {"var", "atom", "int", "maxint", "list", "compound"}
\* arities 0..3: every combination of shapes; arity 4: every combination of the 9 Small shapes; arity 5: every combination of
\* 6 (quick) or 9 (thorough) shapes; arities 6..8 (only call/N): one shape everywhere except one position
Tuples(n) == IF n <= 3 THEN [1..n -> ShapesFor(n)]
             ELSE IF n = 4 THEN [1..4 -> Small]
             ELSE IF n = 5 THEN [1..5 -> IF SMALLSHAPES THEN Small5 ELSE Small]
             ELSE { [i \in 1..n |-> IF i = k THEN s2 ELSE s1] : s1 \in Small, s2 \in Small, k \in 1..n }
\* "eval": every evaluable functor of ISO 9 applied to every tuple of number shapes through is/2
Eval1 == {"-", "+", "abs", "sign", "float", "integer", "float_integer_part", "float_fractional_part", "floor", "truncate", "round", "ceiling", "sin", "cos", "atan", "exp", "log", "sqrt", "\\", "max_integer", "foo"}
Eval2 == {"+", "-", "*", "/", "//", "rem", "mod", "div", "min", "max", "**", "^", ">>", "<<", "/\\", "\\/", "xor", "atan2", "copysign", "log"}
NumShapes == {"var", "atom", "zero", "int", "negint", "maxint", "minint", "float", "negfloat", "bigfloat", "tinyfloat", "zerofloat", "big_shift", "compound", "list"}
\* "collect": the all-solutions predicates over two solutions whose free variable / template holds the same value of every shape
\* (witnesses are compared with one another); "order": the comparing and sorting predicates over every pair of shapes
CollectOps == {"bagof", "setof", "findall"}
CollectForms == {"free", "template", "caret"}
OrderPreds == {"compare", "==", "@<", "sort", "msort", "keysort", "setof"}
VARIABLES kind, toks, args, done
vars == <<kind, toks, args, done>>
Init == \/ kind = "tokens" /\ toks \in UNION { [1..k -> TokenKinds] : k \in 0..NT } /\ args = <<>> /\ done = FALSE
        \/ kind = "shapes" /\ toks = <<>> /\ args \in UNION { Tuples(n) : n \in 0..8 } /\ done = FALSE
        \/ kind = "eval" /\ toks \in { <<f>> : f \in Eval1 } /\ args \in [1..1 -> NumShapes] /\ done = FALSE
        \/ kind = "eval" /\ toks \in { <<f>> : f \in Eval2 } /\ args \in [1..2 -> NumShapes] /\ done = FALSE
        \/ kind = "collect" /\ toks \in { <<op, form>> : op \in CollectOps, form \in CollectForms } /\ args \in [1..1 -> Shapes] /\ done = FALSE
        \/ kind = "order" /\ toks \in { <<p>> : p \in OrderPreds } /\ args \in [1..2 -> Shapes] /\ done = FALSE
Next == ~done /\ done' = TRUE /\ UNCHANGED <<kind, toks, args>>
Spec == Init /\ [][Next]_vars
Emit == done => PrintT("CASE " \o ToJson([kind |-> kind, toks |-> toks, args |-> args, allowed |-> Allowed, iso |-> IsoFormals]))
=============================================================================
