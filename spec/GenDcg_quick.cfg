SPECIFICATION GSpec
CONSTANTS NI = 1
          GEN = TRUE
          FULL = TRUE
CHECK_DEADLOCK FALSE
INVARIANT Emit
INVARIANT LanguagePreserved
CONSTRAINT Bound
