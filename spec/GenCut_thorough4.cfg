SPECIFICATION GSpec
CONSTANTS N1 = 1
          N2 = 0
          ND = 2
          NCTX = 4
          ALPHA = "full"
CHECK_DEADLOCK FALSE
INVARIANT Emit
INVARIANT BarrierOK
PROPERTY CutExact
CONSTRAINT Bound
