SPECIFICATION TSpec
CONSTANTS MaxDepth = 8
          InheritCtx = TRUE
          MaxSteps = 100000
CHECK_DEADLOCK FALSE
INVARIANT TraceInv
CONSTRAINT HW
POSTCONDITION Accepted
