------------------------------ MODULE GenLexer ------------------------------
\* Enumerates every text of <= NMAX characters over a character family and emits the token sequence Lexer.tla gives it.
\* The replayer runs the real lexer (accessor engine.VerifTokens) over the same text and compares kind and characters of
\* every token up to the first invalid one.
EXTENDS Lexer, Json
CONSTANTS FAMILY, NMAX
\* The state holds INDICES into the family's characters, never the characters: TLC's state queue writes the characters of a string
\* as single bytes when it spills to disk (more than a few thousand states waiting), and a character outside ASCII comes back as
\* another one (é as U+FFE9, U+2003 as U+0003). The text and its tokens are computed when the case is printed.
Chars == CASE FAMILY = "names"    -> <<"a", "A", "_", "1", "+", ".", " ", "(", ",", "!">>
           [] FAMILY = "numbers"  -> <<"0", "1", ".", "e", "+", "'", "x", "b", "a", " ", "\\">>
           [] FAMILY = "quotes"   -> <<"'", "a", "\\", "n", "x", "1", "\n", " ", "\"", "7">>
           [] FAMILY = "comments" -> <<"/", "*", "%", "\n", "a", " ", ".", "(">>
           \* characters outside ASCII: letters of each kind (2 and 3 bytes), a digit of another script (no digit for the token syntax),
           \* spaces, a mathematical operator (graphic), a currency sign (no class at all)
           [] FAMILY = "unicode"  -> <<"a", "1", "é", "ā", "Ω", "日", "٣", " ", "∀", "€", "'", " ", ".">>
VARIABLES ix, done
Init == ix \in UNION { [1..k -> 1..Len(Chars)] : k \in 0..NMAX } /\ done = FALSE
Next == ~done /\ done' = TRUE /\ UNCHANGED ix
Spec == Init /\ [][Next]_<<ix, done>>
Txt == [i \in 1..Len(ix) |-> Chars[ix[i]]]
\* U1: the tokens lie in the text in order and without overlap, and only layout text lies between them
RECURSIVE Concat(_)
Concat(ts) == IF ts = <<>> THEN "" ELSE ts[1].v \o Concat(Tail(ts))
RECURSIVE Flat(_)
Flat(s) == IF s = <<>> THEN "" ELSE s[1] \o Flat(Tail(s))
Emit == done => PrintT("CASE " \o ToJson([txt |-> Txt, toks |-> Lex(Txt)]))

a == "a"
ASSUME Lex(<<"a", "1", " ", "A", "_">>) = << [k |-> "letter digit", v |-> "a1"], [k |-> "variable", v |-> "A_"] >>
ASSUME Lex(<<"1", ".", "0", "e", "+", "1">>) = << [k |-> "float number", v |-> "1.0e+1"] >>
ASSUME Lex(<<"1", ".", "0", "e", "+">>) = << [k |-> "float number", v |-> "1.0"], [k |-> "letter digit", v |-> "e"], [k |-> "graphic", v |-> "+"] >>
ASSUME Lex(<<"1", ".", "e">>) = << [k |-> "integer", v |-> "1"], [k |-> "graphic", v |-> "."], [k |-> "letter digit", v |-> "e"] >>
ASSUME Lex(<<"a", ".">>) = << [k |-> "letter digit", v |-> "a"], [k |-> "end", v |-> "."] >>
ASSUME Lex(<<"0", "'", "a">>) = << [k |-> "integer", v |-> "0'a"] >>
ASSUME Lex(<<"0", "'", "'", "'">>) = << [k |-> "integer", v |-> "0'''"] >>
ASSUME Lex(<<"0", "'", "'", "a">>) = << [k |-> "integer", v |-> "0"], [k |-> "quoted", v |-> "''"], [k |-> "letter digit", v |-> "a"] >>
ASSUME Lex(<<"a", "(", " ", "(">>) = << [k |-> "letter digit", v |-> "a"], [k |-> "open ct", v |-> "("], [k |-> "open", v |-> "("] >>
ASSUME Lex(<<"/", "*", "a", "*", "/", "a">>) = << [k |-> "letter digit", v |-> "a"] >>
ASSUME Lex(<<"+", "/", "*">>) = << [k |-> "graphic", v |-> "+/*"] >>
ASSUME Lex(<<"'", "a", "'", "'", "'">>) = << [k |-> "quoted", v |-> "'a'''"] >>
ASSUME Lex(<<"'", "a">>) = <<>>
=============================================================================
