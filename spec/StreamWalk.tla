----------------------------- MODULE StreamWalk -----------------------------
(* C19, histories: random walks (tlc -simulate) of WN input operations on one stream over a random source of WLEN symbols. *)
(* Stream.tla's exhaustive configurations cover every sequence of 3-4 operations on short sources; look-ahead that is     *)
(* given back too late, a sticky end state or a position that drifts only shows after a longer history. The simulator    *)
(* computes every successor before choosing one, so each step offers exactly one random operation; the source, the       *)
(* stream type and the eof action are drawn in the first step.                                                           *)
EXTENDS Stream
CONSTANTS WN, WLEN
VARIABLE chosen
wvars == <<src, typ, act, pos, eos, hist, chosen>>
WInit == src = <<>> /\ typ = "text" /\ act = "error" /\ pos = 0 /\ eos = "end?" /\ hist = <<>> /\ chosen = FALSE
Choose == /\ ~chosen /\ chosen' = TRUE
          /\ \E s \in { [i \in 1..RandomElement(1..WLEN) |-> RandomElement(Alphabet)] }, t \in {RandomElement({"text", "binary"})}, a \in {RandomElement(EofActions)} :
               /\ src' = s /\ typ' = t /\ act' = a
               /\ pos' = 0 /\ eos' = "not" /\ hist' = <<>>
WStep == /\ chosen /\ Len(hist) < WN /\ UNCHANGED chosen
         \* mostly operations that fit the stream type (the others raise permission errors and leave the cursor alone)
         /\ \E op \in {RandomElement(IF RandomElement(1..8) = 1 THEN AllOps ELSE (IF typ = "text" THEN CharOps ELSE ByteOps) \cup {"at_end"})} :
              LET o == StepOp(src, typ, act, pos, eos, op) IN
              IF o.res = "other" THEN UNCHANGED <<src, typ, act, pos, eos, hist>>
              ELSE /\ pos' = o.npos /\ eos' = o.eos
                   /\ hist' = Append(hist, [op |-> o.op, res |-> o.res, val |-> o.val, pos |-> o.pos, eos |-> o.eos, p0 |-> pos, p1 |-> o.npos])
                   /\ UNCHANGED <<src, typ, act>>
WNext == Choose \/ WStep
WSpec == WInit /\ [][WNext]_wvars
WEmit == Len(hist) = WN => PrintT("CASE " \o ToJson([src |-> src, typ |-> typ, act |-> act, hist |-> hist]))
WOK == chosen => CursorOK /\ Delivered /\ PositionIsBytes
=============================================================================
