------------------------------ MODULE GenIndex ------------------------------
(* C01, clause selection: a predicate k/2 of four clauses whose first arguments run over every sequence of an atom, another  *)
(* atom, an integer, a variable and a compound (the second argument numbers the clause) is called with each kind of first   *)
(* argument, one call after the other in one query, and again: the clauses tried are all the clauses, in database order,    *)
(* whatever a call before selected (an implementation may pre-select clauses by their first argument, but the selection     *)
(* must neither lose a clause nor disturb the stored program for the calls that follow).                                   *)
EXTENDS Engine, Json
a == A("a")
b == A("b")
Firsts == { a, b, I(1), V(1), C("f", <<a>>) }
K(s, t) == C("k", <<s, t>>)
Wr(t) == C("w", <<t>>)
Conj2(s, t) == C(",", <<s, t>>)
RECURSIVE Disj(_)
Disj(s) == IF Len(s) = 1 THEN s[1] ELSE C(";", <<s[1], Disj(Tail(s))>>)
MkCl(i, h) == LET vs == TermVars(h) IN [id |-> i, head |-> Renum(h, vs, 0), body |-> TrueA, nv |-> Len(vs)]
Db(fs) == << [key |-> <<"k", 2>>, dyn |-> FALSE, cls |-> [i \in 1..Len(fs) |-> MkCl(i, K(fs[i], I(i)))]],
             [key |-> <<"w", 1>>, dyn |-> FALSE, cls |-> << [id |-> 9, head |-> Wr(V(1)), body |-> TrueA, nv |-> 1] >>] >>
Loop(arg) == Conj2(K(arg, V(2)), Conj2(Wr(V(2)), FailA))
Query == Disj(<< Loop(a), Loop(b), Loop(I(1)), Loop(a), Loop(C("f", <<V(3)>>)), Loop(V(3)), Loop(b), Conj2(K(a, V(2)), K(b, V(4))) >>)
VARIABLES st, hist, fs
gvars == <<st, hist, fs>>
GInit == /\ fs \in [1..4 -> Firsts]
         /\ st = InitState(Db(fs), Query, 4)
         /\ hist = <<>>
GNext == /\ ~Terminal(st)
         /\ \E t \in Steps(st) : /\ ~(st.status = "answer" /\ t.status = "closed")
                                 /\ st' = t
                                 /\ hist' = IF t.ev # NoEv THEN Append(hist, t.ev) ELSE hist
         /\ UNCHANGED fs
GSpec == GInit /\ [][GNext]_gvars
Emit == Judged(st) => PrintT("CASE " \o ToJson([db |-> Db(fs), query |-> Query, qv |-> 4, events |-> hist]))
Bound == Len(hist) < 120 /\ Len(st.bind) < 400
=============================================================================
