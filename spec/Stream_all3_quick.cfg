SPECIFICATION Spec
CONSTANTS N = 2
          SRCSET = "all3"
INVARIANT CursorOK
INVARIANT Delivered
INVARIANT PositionIsBytes
INVARIANT Emit
PROPERTY PeekKeeps
PROPERTY PastSticks
CHECK_DEADLOCK FALSE
