------------------------------- MODULE GenSort -------------------------------
(* C08: every list of at most NL elements over a universe that mixes all classes of the         *)
(* standard order (variables, floats, integers - numerically equal ones included -, atoms with  *)
(* prefix-related names, compounds of different arity / name / arguments, the same list as an   *)
(* element). The specification gives sort/2 (ascending, duplicate-free), keysort/2 on the list  *)
(* of Element-Index pairs (stable) and setof/3 over member/2 (sorted, duplicate-free; fails for *)
(* the empty list). Lists whose order hinges on two distinct unbound variables are flagged.      *)
EXTENDS Terms, Json
a == A("a")
b == A("b")
Elems == { a, A("ab"), b, A(""), I(1), I(2), Fl(2), Fl(4), V(1), V(2), C("f", <<a>>), C("f", <<V(1)>>), C("g", <<a, b>>), C("f", <<b>>), MkList(<<a>>), MkList(<<a, b>>), Nil }
CONSTANT NL
VARIABLES l, done
\* long lists with many equal keys (a sorting routine may switch algorithms with the length: stability, duplicate removal and the
\* order must not depend on it): a few patterns over few ground elements, lengths 13, 16 and 33
G3 == <<a, b, I(1)>>
Pattern(m, i) == CASE m = 1 -> (IF i % 2 = 0 THEN a ELSE b)
                   [] m = 2 -> G3[((i * 7) % 3) + 1]
                   [] m = 3 -> (IF i = 1 THEN b ELSE a)
                   [] m = 4 -> G3[((i \div 5) % 3) + 1]
                   [] m = 5 -> (IF i % 4 = 0 THEN MkList(<<a, b>>) ELSE IF i % 4 = 1 THEN MkList(<<a>>) ELSE C("f", <<a>>))
LongLists == { [i \in 1..n |-> Pattern(m, i)] : n \in {13, 16, 33}, m \in 1..5 }
\* integers near the 64-bit limits (7003 stands for the greatest, -7003 for the least: the replayer maps them, keeping the order)
WideElems == { I(-7003), I(-7002), I(-1), I(1), Fl(2), I(7002), I(7003) }
WideLists == UNION { [1..k -> WideElems] : k \in 2..3 }
Init == l \in UNION { [1..k -> Elems] : k \in 0..NL } \cup LongLists \cup WideLists /\ done = FALSE
Next == ~done /\ done' = TRUE /\ UNCHANGED l
Spec == Init /\ [][Next]_<<l, done>>
Dep == \E i, j \in 1..Len(l) : i < j /\ DepL(<< <<l[i], l[j]>> >>)
Pairs == [i \in 1..Len(l) |-> C("-", <<l[i], I(i)>>)]
Case == [l |-> l, dep |-> Dep, sorted |-> SortTerms(l, TRUE), keysorted |-> KeySortTerms(Pairs)]
Emit == done => PrintT("CASE " \o ToJson(Case))
\* --- U1: sort laws ---
S == SortTerms(l, TRUE)
Ascending == \A i \in 1..(Len(S) - 1) : CmpL(<< <<S[i], S[i + 1]>> >>) < 0             \* strictly: no duplicates
SameSet == { S[i] : i \in 1..Len(S) } = { l[i] : i \in 1..Len(l) }
K == KeySortTerms(Pairs)
KeyStable == /\ Len(K) = Len(l)
             /\ \A i \in 1..(Len(K) - 1) : LET c == CmpL(<< <<K[i][3][1], K[i + 1][3][1]>> >>) IN
                                            c < 0 \/ (c = 0 /\ K[i][3][2][2] < K[i + 1][3][2][2])    \* equal keys keep their original order
=============================================================================
