------------------------------ MODULE EnvPersist ------------------------------
(* C01, the binding environment as a persistent map. Every choice point of the interpreter keeps the environment it was    *)
(* created with, and backtracking continues from that old environment while newer ones derived from it exist: "no binding  *)
(* leaks between sibling branches or successive answers" rests on every environment staying exactly what it was when it    *)
(* was made. The model is the abstract data type: a version is a function from variables to values (0 = unbound);          *)
(* Bind(base, x, c) derives a new version from ANY existing one - mostly the newest (a conjunction running forward),       *)
(* sometimes an older one (backtracking to a choice point) - and never changes an existing version.                        *)
(* TLC walks random histories (simulation; the variables are bound in random order of their age, which is what the         *)
(* balanced tree behind the real Env is sensitive to); the replayer performs the same binds on engine.Env and compares      *)
(* EVERY version with the model after EVERY step.                                                                          *)
EXTENDS Integers, Sequences, TLC, Json
CONSTANTS NV,       \* number of variables
          LEN       \* number of binds of a history
VARIABLES vs, ops
vars == <<vs, ops>>
Init == vs = << [x \in 1..NV |-> 0] >> /\ ops = <<>>
Free(i) == { x \in 1..NV : vs[i][x] = 0 }
Bind(base, x, c) == /\ vs' = Append(vs, [vs[base] EXCEPT ![x] = c])
                    /\ ops' = Append(ops, [base |-> base, var |-> x, val |-> c])
\* one random successor per step (the simulator computes all the successors of a state)
Next == /\ Len(ops) < LEN
        /\ \E base \in { IF RandomElement(1..5) = 1 THEN RandomElement(1..Len(vs)) ELSE Len(vs) } :     \* (bound variables: each drawn once)
             /\ Free(base) # {}
             /\ \E x \in { RandomElement(Free(base)) } : \E c \in { RandomElement(1..2) } : Bind(base, x, c)
Spec == Init /\ [][Next]_vars
Emit == (Len(ops) = LEN \/ Free(Len(vs)) = {}) => PrintT("CASE " \o ToJson([nv |-> NV, ops |-> ops, versions |-> vs]))
\* --- U1 ---
\* persistence: no step changes an existing version
Persistent == [][\A i \in 1..Len(vs) : vs'[i] = vs[i]]_vars
\* a version differs from its base in exactly the variable bound, which was unbound before
Derived == \A i \in 1..Len(ops) : LET o == ops[i] IN /\ vs[o.base][o.var] = 0 /\ vs[i + 1] = [vs[o.base] EXCEPT ![o.var] = o.val]
=============================================================================
