------------------------------- MODULE Lexer -------------------------------
\* The token syntax of ISO 13211-1 section 6.4 as a function from character sequences to token sequences: layout and
\* comments are skipped, every token is the LONGEST prefix of the rest that is a token (maximal munch), the token classes
\* are defined by their ISO productions (not by the implementation's hand-written scanner with its 4-slot look-ahead
\* buffer). Together with Syntax.tla (terms over tokens) it is the specification of reading:  text -> tokens -> term.
\*
\* A text is a sequence of one-character strings. A token is [k |-> kind, v |-> the characters of the token]; kinds are
\* named as the implementation names them. Lex(s) is the sequence of tokens up to the end of the text, up to the first
\* invalid token (kind "invalid", the rest is not tokenised: a syntax error in ISO), or up to a token or comment that the
\* end of the text cuts short (nothing is delivered for it).
EXTENDS Integers, Sequences, TLC

\* ASCII in full, and the non-ASCII characters that the term universes of RoundTrip.tla use (6.5: the processor character set
\* is implementation defined; the implementation takes Unicode lower-case / other letters as small letters, upper-case
\* letters as capital letters and the mathematical operator blocks as graphic characters)
Small == {"a", "b", "c", "d", "e", "f", "g", "h", "i", "j", "k", "l", "m", "n", "o", "p", "q", "r", "s", "t", "u", "v", "w", "x", "y", "z",
          "é", "ï", "ā", "ő", "日", "本"}
Capital == {"A", "B", "C", "D", "E", "F", "G", "H", "I", "J", "K", "L", "M", "N", "O", "P", "Q", "R", "S", "T", "U", "V", "W", "X", "Y", "Z", "Ω"}
Digit == {"0", "1", "2", "3", "4", "5", "6", "7", "8", "9"}
Alnum == Small \cup Capital \cup Digit \cup {"_"}
GraphicSym == {"#", "$", "&", "*", "+", "-", ".", "/", ":", "<", "=", ">", "?", "@", "^", "~", "∅", "≤", "∀", "⨁", "⊥"}   \* the backslash is one more in graphic tokens
GraphicTok == GraphicSym \cup {"\\"}
Solo == {"!", "(", ")", ",", ";", "[", "]", "{", "}", "|", "%"}
Layout == {" ", "\n", "\t", " ", " ", "　"}              \* (the last three: U+00A0, U+2003 and U+3000 - the implementation takes every Unicode space for layout)
Meta == {"\\", "'", "\"", "`"}
SymbolicControl == {"a", "b", "r", "f", "t", "n", "v"}
Octal == {"0", "1", "2", "3", "4", "5", "6", "7"}
Hex == Digit \cup {"a", "b", "c", "d", "e", "f", "A", "B", "C", "D", "E", "F"}
Binary == {"0", "1"}
\* 6.4.2.1: what may stand for itself between single quotes
SingleQuotedChar == GraphicSym \cup Alnum \cup Solo \cup {" ", "\"", "`"}

At(s, i) == IF i >= 1 /\ i <= Len(s) THEN s[i] ELSE "<eof>"
RECURSIVE Span(_, _, _)
\* the last position of the longest run of characters of S that starts at i (i - 1 if there is none)
Span(s, i, S) == IF At(s, i) \in S THEN Span(s, i + 1, S) ELSE i - 1

\* --- escape sequences (6.4.2.1), after the backslash at position p: the last position of the sequence,
\*     0 = the text ends inside it, -q = invalid at position q
Escape(s, p) ==
  LET c == At(s, p + 1) IN
  IF c = "<eof>" THEN 0
  ELSE IF c \in Meta \cup SymbolicControl THEN p + 1
  ELSE IF c \in Octal THEN LET e == Span(s, p + 1, Octal) IN IF At(s, e + 1) = "\\" THEN e + 1 ELSE IF At(s, e + 1) = "<eof>" THEN 0 ELSE -(e + 1)
  ELSE IF c = "x" THEN (IF At(s, p + 2) = "<eof>" THEN 0
                        ELSE IF At(s, p + 2) \notin Hex THEN -(p + 2)
                        ELSE LET e == Span(s, p + 2, Hex) IN IF At(s, e + 1) = "\\" THEN e + 1 ELSE IF At(s, e + 1) = "<eof>" THEN 0 ELSE -(e + 1))
  ELSE -(p + 1)

\* Named deviation of the implementation from 6.4.6: a double quoted list token may contain ANY character unescaped, also a new
\* line (ISO: only the characters a quoted token may contain). Observed on every text of the quotes family; modelled so that the
\* comparison with the real lexer is exact and any other difference stands out.
DevAnyCharInDoubleQuotes == TRUE

\* --- quoted token, double quoted list token (6.4.2, 6.4.6): the body from position p on, q the quote; same result convention
RECURSIVE Quoted(_, _, _)
Quoted(s, p, q) ==
  LET c == At(s, p) IN
  IF c = "<eof>" THEN 0
  ELSE IF c = q THEN (IF At(s, p + 1) = q THEN Quoted(s, p + 2, q) ELSE p)                     \* a doubled quote stands for the quote
  ELSE IF c = "\\" THEN (IF At(s, p + 1) = "\n" THEN Quoted(s, p + 2, q)                    \* continuation escape sequence
                         ELSE LET e == Escape(s, p) IN IF e > 0 THEN Quoted(s, e + 1, q) ELSE e)
  ELSE IF c \in SingleQuotedChar \cup {"'"} THEN Quoted(s, p + 1, q)                            \* (the other quotes stand for themselves)
  ELSE IF DevAnyCharInDoubleQuotes /\ q = "\"" THEN Quoted(s, p + 1, q)
  ELSE -p

\* --- numbers (6.4.4, 6.4.5), the token starts with the digit at i: <<last position, kind>>, same convention for the position
Decimal(s, i) ==
  LET d == Span(s, i, Digit) IN
  IF At(s, d + 1) = "." /\ At(s, d + 2) \in Digit
  THEN LET f == Span(s, d + 2, Digit)
           g == IF At(s, f + 2) \in {"+", "-"} THEN f + 3 ELSE f + 2
       IN IF At(s, f + 1) \in {"e", "E"} /\ At(s, g) \in Digit THEN <<Span(s, g, Digit), "float number">> ELSE <<f, "float number">>
  ELSE <<d, "integer">>
Number(s, i) ==
  IF s[i] # "0" THEN Decimal(s, i)
  ELSE LET c == At(s, i + 1) IN
       IF c = "'" THEN                                       \* character code constant 0'c
            LET q == At(s, i + 2) IN
            IF q = "<eof>" THEN <<0, "integer">>
            ELSE IF q = "'" THEN (IF At(s, i + 3) = "'" THEN <<i + 3, "integer">> ELSE <<i, "integer">>)   \* 0''' ; otherwise just 0
            ELSE IF q = "\\" THEN (IF At(s, i + 3) = "\n" THEN <<i, "integer">> ELSE <<Escape(s, i + 2), "integer">>)
            ELSE IF q \in SingleQuotedChar THEN <<i + 2, "integer">>
            ELSE <<-(i + 2), "integer">>
       ELSE IF c = "b" /\ At(s, i + 2) \in Binary THEN <<Span(s, i + 2, Binary), "integer">>
       ELSE IF c = "o" /\ At(s, i + 2) \in Octal THEN <<Span(s, i + 2, Octal), "integer">>
       ELSE IF c = "x" /\ At(s, i + 2) \in Hex THEN <<Span(s, i + 2, Hex), "integer">>
       ELSE Decimal(s, i)

\* --- layout text (6.4.1): the position of the first character of the next token; 0 = the text ends (inside a comment or not)
RECURSIVE BlockEnd(_, _)
BlockEnd(s, p) == IF At(s, p) = "<eof>" THEN 0 ELSE IF s[p] = "*" /\ At(s, p + 1) = "/" THEN p + 1 ELSE BlockEnd(s, p + 1)
RECURSIVE LineEnd(_, _)
LineEnd(s, p) == IF At(s, p) = "<eof>" THEN 0 ELSE IF s[p] = "\n" THEN p ELSE LineEnd(s, p + 1)
RECURSIVE SkipLayout(_, _)
SkipLayout(s, p) ==
  LET c == At(s, p) IN
  IF c = "<eof>" THEN 0
  ELSE IF c \in Layout THEN SkipLayout(s, p + 1)
  ELSE IF c = "%" THEN (LET e == LineEnd(s, p + 1) IN IF e = 0 THEN 0 ELSE SkipLayout(s, e + 1))
  ELSE IF c = "/" /\ At(s, p + 1) = "*" THEN (LET e == BlockEnd(s, p + 2) IN IF e = 0 THEN 0 ELSE SkipLayout(s, e + 1))
  ELSE p

Punct == [c \in {"(", ")", "[", "]", "{", "}", ",", "|", "!", ";"} |->
            CASE c = "(" -> "open" [] c = ")" -> "close" [] c = "[" -> "open list" [] c = "]" -> "close list" [] c = "{" -> "open curly"
              [] c = "}" -> "close curly" [] c = "," -> "comma" [] c = "|" -> "bar" [] c = "!" -> "cut" [] c = ";" -> "semicolon"]

\* the token that starts at position i (its first character is no layout): <<last position or 0 or -q, kind>>
TokenAt(s, i, afterLayout) ==
  LET c == s[i] IN
  IF c \in Small THEN <<Span(s, i + 1, Alnum), "letter digit">>
  ELSE IF c \in Capital \cup {"_"} THEN <<Span(s, i + 1, Alnum), "variable">>
  ELSE IF c \in Digit THEN Number(s, i)
  ELSE IF c = "'" THEN <<Quoted(s, i + 1, "'"), "quoted">>
  ELSE IF c = "\"" THEN <<Quoted(s, i + 1, "\""), "double quoted list">>
  \* 6.4.8: an end token is a dot followed by a layout character, a % or the end of the text
  ELSE IF c = "." /\ At(s, i + 1) \in Layout \cup {"%", "<eof>"} THEN <<i, "end">>
  ELSE IF c \in GraphicTok THEN <<Span(s, i + 1, GraphicTok), "graphic">>
  ELSE IF c = "(" THEN <<i, IF afterLayout THEN "open" ELSE "open ct">>
  ELSE IF c \in DOMAIN Punct THEN <<i, Punct[c]>>
  ELSE <<-i, "invalid">>

RECURSIVE Text(_, _, _)
Text(s, a, b) == IF a > b THEN "" ELSE s[a] \o Text(s, a + 1, b)
RECURSIVE LexFrom(_, _, _)
LexFrom(s, p, first) ==
  LET i == SkipLayout(s, p) IN
  IF i = 0 THEN <<>>
  ELSE LET t == TokenAt(s, i, i > p) e == t[1] IN       \* after layout iff something was skipped
       IF e = 0 THEN <<>>                                                    \* cut short by the end of the text
       ELSE IF e < 0 THEN << [k |-> "invalid", v |-> ""] >>
       ELSE << [k |-> t[2], v |-> Text(s, i, e)] >> \o LexFrom(s, e + 1, FALSE)
Lex(s) == LexFrom(s, 1, TRUE)
=============================================================================
