------------------------------ MODULE RoundTrip ------------------------------
(* C06: text written by writeq / write_canonical / write_term(quoted(true)) reads back as the     *)
(* same term. TLA+ has neither characters nor IEEE doubles, so atoms and numbers are LEXICAL        *)
(* CLASSES that the replayer concretises with seeded samples; what the specification enumerates     *)
(* exhaustively is the structure on which bracketing and spacing depend: every operator table       *)
(* reached by a short op/3 history, every (context operator, operand kind) pair, every specifier,   *)
(* an atom that is prefix and infix at once, negative numbers as operands, operators as atoms in    *)
(* argument / list / operand position, lists, partial lists, curly terms - for every writer and     *)
(* double_quotes setting. The law is  Variant(Read(Write(T) ++ " ."), T).                            *)
EXTENDS Integers, Sequences, FiniteSets, TLC, Json
AtomClasses == {"alnum", "graphic", "solo", "quoted_plain", "quoted_escape", "empty", "non_ascii", "graphic_unicode", "op_prefix", "op_infix", "op_postfix", "op_both", "comma", "bar", "nil", "curly", "user_prefix", "user_infix"}
NumClasses == {"int_pos", "int_neg", "int_zero", "float_pos", "float_neg", "float_negzero", "int_big"}
Leaf == { <<"atom", c>> : c \in AtomClasses } \cup { <<"num", c>> : c \in NumClasses } \cup { <<"var">> }
SmallLeaf == { <<"atom", "alnum">>, <<"atom", "op_infix">>, <<"atom", "op_prefix">>, <<"atom", "op_both">>, <<"atom", "quoted_escape">>, <<"num", "int_pos">>, <<"num", "int_neg">>,
               <<"num", "float_pos">>, <<"num", "float_neg">>, <<"var">>, <<"atom", "nil">>, <<"atom", "comma">>, <<"atom", "bar">>, <<"atom", "curly">>, <<"atom", "graphic">>, <<"atom", "graphic_unicode">> }
\* operator functors by class (the replayer knows the concrete names: default and user-defined operators)
PrefixOps == {"minus", "plus", "naf", "user_fy", "user_fx", "colondash", "user_gfy"}   \* user_g*: names made of non-ASCII graphic characters
InfixOps == {"minus", "plus", "eq", "comma", "semicolon", "arrow", "colondash", "caret", "is", "user_xfx", "user_xfy", "user_yfx", "bar", "user_gxfx"}
PostfixOps == {"user_xf", "user_yf"}
One(S) == { <<"pre", o, x>> : o \in PrefixOps, x \in S } \cup { <<"post", o, x>> : o \in PostfixOps, x \in S }
          \cup { <<"cmp1", x>> : x \in S } \cup { <<"curly", x>> : x \in S } \cup { <<"list1", x>> : x \in S } \cup { <<"partial", x>> : x \in S }
          \cup { <<"ptail", x>> : x \in S }            \* [a|x]: x is the TAIL (an atom, a number, an operator term of any priority)
Two(S, T) == { <<"inf", o, x, y>> : o \in InfixOps, x \in S, y \in T } \cup { <<"cmp2", x, y>> : x \in S, y \in T } \cup { <<"list2", x, y>> : x \in S, y \in T }
CONSTANT DEPTH       \* 2 | 3 (3: a sampled third level)
Depth1 == One(Leaf) \cup Two(SmallLeaf, SmallLeaf)
\* second level: operators inside operators (every context operator x operand kind), on the left and on the right
Inner == { <<"pre", o, x>> : o \in {"minus", "user_fy", "user_fx", "naf"}, x \in {<<"atom", "alnum">>, <<"num", "int_pos">>, <<"num", "int_neg">>, <<"atom", "op_both">>} }
         \cup { <<"inf", o, x, y>> : o \in {"minus", "eq", "comma", "user_xfx", "user_xfy", "user_yfx", "caret", "arrow"}, x \in {<<"atom", "alnum">>, <<"num", "int_neg">>}, y \in {<<"atom", "alnum">>, <<"num", "float_neg">>} }
         \cup { <<"post", o, x>> : o \in PostfixOps, x \in {<<"atom", "alnum">>, <<"num", "int_pos">>} }
Depth2 == One(Inner) \cup { <<"inf", o, x, y>> : o \in InfixOps, x \in Inner, y \in {<<"atom", "alnum">>} }
                     \cup { <<"inf", o, x, y>> : o \in InfixOps, x \in {<<"atom", "alnum">>}, y \in Inner }
\* the SAME sub-term (one object at run time: a variable bound to it occurs twice) at two positions, neither inside the other;
\* two equal double-quoted strings (whose identity, in this implementation, is their text)
ShareInner == { <<"cmp1", <<"atom", "alnum">>>>, <<"list1", <<"atom", "alnum">>>>, <<"curly", <<"atom", "alnum">>>>, <<"inf", "minus", <<"atom", "alnum">>, <<"num", "int_pos">>>>,
                <<"list2", <<"atom", "alnum">>, <<"var">>>> }
Sharing == { <<"share2", x>> : x \in ShareInner } \cup { <<"sharelist", x>> : x \in ShareInner } \cup { <<"shareop", x>> : x \in ShareInner } \cup { <<"dqpair">> }
Terms == Leaf \cup Depth1 \cup Sharing \cup (IF DEPTH >= 2 THEN Depth2 ELSE {})
\* operator tables: the default one and tables after redefining some of the operators used above
Tables == {"default", "user_ops", "minus_weak", "eq_removed", "comma_like"}
Writers == {"writeq", "write_canonical", "quoted", "quoted_ignore_ops"}
DQ == {"codes", "chars", "atom"}
CONSTANT ALLCOMBOS   \* TRUE: every table x writer x flag for every term; FALSE: a covering selection
VARIABLES term, table, writer, dq, done
vars == <<term, table, writer, dq, done>>
Init == /\ term \in Terms /\ done = FALSE
        /\ IF ALLCOMBOS THEN table \in Tables /\ writer \in Writers /\ dq \in DQ
           ELSE \/ table \in Tables /\ writer = "writeq" /\ dq = "codes"
                \/ table = "user_ops" /\ writer \in Writers /\ dq = "chars"
                \/ table = "default" /\ writer = "quoted" /\ dq = "atom"
Next == ~done /\ done' = TRUE /\ UNCHANGED <<term, table, writer, dq>>
Spec == Init /\ [][Next]_vars
Emit == done => PrintT("CASE " \o ToJson([term |-> term, table |-> table, writer |-> writer, dq |-> dq]))
=============================================================================
