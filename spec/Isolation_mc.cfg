SPECIFICATION Spec
CONSTANTS UseLock = TRUE
          AtomicAdd = TRUE
          NG = 3
INVARIANT Interned
INVARIANT TableOK
INVARIANT NoTornRead
INVARIANT VarsOnce
CHECK_DEADLOCK FALSE
