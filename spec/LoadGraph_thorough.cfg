SPECIFICATION Spec
CONSTANTS Files = {"a", "b"}
          NDIR = 3
          KINDS = {"ens", "inc", "init"}
INVARIANT Emit
INVARIANT StackBounded
INVARIANT NoDoubleLoad
INVARIANT NoDoubleInclude
PROPERTY Terminates
PROPERTY ErrorKeeps
