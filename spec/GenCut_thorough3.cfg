SPECIFICATION GSpec
CONSTANTS N1 = 3
          N2 = 0
          ND = 0
          NCTX = 8
          ALPHA = "opaque"
CHECK_DEADLOCK FALSE
INVARIANT Emit
PROPERTY CutExact
INVARIANT BarrierOK
CONSTRAINT Bound
