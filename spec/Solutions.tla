------------------------------ MODULE Solutions ------------------------------
(* C12: the iterator contract as a sequential state machine over {Next, Scan, Err, Close} for   *)
(* NI Solutions of one interpreter used in an interleaved fashion from one goroutine.           *)
(* A query kind is (n answers, then end | error | infinite). Every operation is enabled in      *)
(* every state and returns; the history records the return values the contract fixes:           *)
(*   Next  true exactly once per answer, in order, false thereafter (exhausted, failed, closed) *)
(*   Scan  the most recent answer - defined after a Next that returned true and after a Close   *)
(*         that followed such a Next; "any" elsewhere (it must still return promptly)           *)
(*   Err   the terminating error once Next has reported the failure (it survives Close)         *)
(*   Close nil, then ErrClosed                                                                  *)
(* ran = number of answers the search of that iterator has produced: a search never runs ahead  *)
(* of its consumer and does not run after Close (observable through the goals' output).         *)
(* The iterators do not interact: each sees what it would see alone (Independent).              *)
EXTENDS Integers, Sequences, TLC, Json

CONSTANTS N,        \* length of the call sequence
          NI,       \* number of Solutions (1 or 2)
          KINDSET   \* "all" | "few"
KMAX == 2
\* ("bare": one answer and the end, like [n |-> 1, then |-> "end"], from a query that calls no procedure and binds nothing - a cut -,
\*  so that the answer's substitution is the empty one, which the implementation represents by a nil pointer)
\* ("anon": n answers and the end, from a query without a named variable - a yes/no question that has several proofs)
AllKinds == { [n |-> n, then |-> th] : n \in 0..KMAX, th \in {"end", "error"} } \cup { [n |-> 0, then |-> "inf"], [n |-> 1, then |-> "bare"], [n |-> 2, then |-> "anon"] }
FewKinds == { [n |-> 2, then |-> "end"], [n |-> 1, then |-> "error"], [n |-> 0, then |-> "inf"], [n |-> 1, then |-> "bare"], [n |-> 2, then |-> "anon"] }
Kinds == IF KINDSET = "all" THEN AllKinds ELSE FewKinds
Its == 1..NI

VARIABLES kind, given, status, failed, cur, hist
\* per iterator: given = answers handed out; status: "open" | "exhausted" | "closed"; failed: the error was reported by a
\* false Next; cur = index of the most recent answer while Scan is defined for it (0 = undefined)
vars == <<kind, given, status, failed, cur, hist>>

Init == /\ kind \in [Its -> Kinds] /\ given = [i \in Its |-> 0] /\ status = [i \in Its |-> "open"]
        /\ failed = [i \in Its |-> FALSE] /\ cur = [i \in Its |-> 0] /\ hist = <<>>

Rec(i, op, ret, ran) == [it |-> i, op |-> op, ret |-> ret, ran |-> ran]
DoNext(i) ==
  IF status[i] # "open"
  THEN /\ hist' = Append(hist, Rec(i, "Next", "false", given[i]))
       /\ cur' = [cur EXCEPT ![i] = IF status[i] = "closed" THEN @ ELSE 0] /\ UNCHANGED <<given, status, failed>>
  ELSE IF kind[i].then = "inf" \/ given[i] < kind[i].n
       THEN /\ given' = [given EXCEPT ![i] = @ + 1] /\ cur' = [cur EXCEPT ![i] = given[i] + 1]
            /\ hist' = Append(hist, Rec(i, "Next", "true", given[i] + 1)) /\ UNCHANGED <<status, failed>>
       ELSE /\ status' = [status EXCEPT ![i] = "exhausted"] /\ failed' = [failed EXCEPT ![i] = (kind[i].then = "error")]
            /\ cur' = [cur EXCEPT ![i] = 0]
            /\ hist' = Append(hist, Rec(i, "Next", "false", given[i])) /\ UNCHANGED given
DoScan(i) == /\ hist' = Append(hist, Rec(i, "Scan", IF cur[i] > 0 THEN ToString(cur[i]) ELSE "any", given[i]))
             /\ UNCHANGED <<given, status, failed, cur>>
DoErr(i) == /\ hist' = Append(hist, Rec(i, "Err", IF failed[i] THEN "error" ELSE "nil", given[i])) /\ UNCHANGED <<given, status, failed, cur>>
DoClose(i) == /\ hist' = Append(hist, Rec(i, "Close", IF status[i] = "closed" THEN "ErrClosed" ELSE "nil", given[i]))
              /\ status' = [status EXCEPT ![i] = "closed"] /\ UNCHANGED <<given, failed, cur>>

Next == Len(hist) < N /\ (\E i \in Its : DoNext(i) \/ DoScan(i) \/ DoErr(i) \/ DoClose(i)) /\ UNCHANGED kind
Spec == Init /\ [][Next]_vars

\* --- properties of the contract (U1) ---
Of(i) == SelectSeq(hist, LAMBDA h : h.it = i)
TrueCount == \A i \in Its : Len(SelectSeq(Of(i), LAMBDA h : h.op = "Next" /\ h.ret = "true")) = given[i]
NoTrueAfterFalse == \A i \in Its : LET s == Of(i) IN
                      \A a, b \in 1..Len(s) : (a < b /\ s[a].op = "Next" /\ s[a].ret = "false" /\ s[b].op = "Next") => s[b].ret = "false"
CloseOnceNil == \A i \in Its : Len(SelectSeq(Of(i), LAMBDA h : h.op = "Close" /\ h.ret = "nil")) <= 1
BoundedByKind == \A i \in Its : kind[i].then # "inf" => given[i] <= kind[i].n
\* an operation changes only its own iterator
Independent == [][\A i \in Its : (hist' # hist /\ hist'[Len(hist')].it # i) =>
                     (given'[i] = given[i] /\ status'[i] = status[i] /\ failed'[i] = failed[i] /\ cur'[i] = cur[i])]_vars
Emit == Len(hist) = N => PrintT("CASE " \o ToJson([kind |-> kind, hist |-> hist]))
=============================================================================
