SPECIFICATION WSpec
CONSTANT LEN = 14
INVARIANT TypeOK
INVARIANT Emit
CHECK_DEADLOCK FALSE
