SPECIFICATION Spec
CONSTANT NS = 3
INVARIANT Emit
INVARIANT Shape
CHECK_DEADLOCK FALSE
