------------------------------- MODULE GenBag -------------------------------
(* C11: exhaustive all-solutions calls over every fact table r/3 of NR rows drawn from Rows     *)
(* (ground rows, rows with variables, rows that are variants of each other):                    *)
(*   findall/bagof/setof x Templates x Goals (with and without ^, conjunctions, disjunctions,   *)
(*   shared variables) x instance arguments (unbound, partial list, [], a matching candidate),  *)
(*   plus nested calls (findall over bagof, bagof over findall).                                *)
(* Group order is left open by the property: the case says ansorder = "free" and the replayer   *)
(* compares each run of consecutive answers as a multiset.                                      *)
EXTENDS Engine, Json
X == V(1)
Y == V(2)
Z == V(3)
L == V(4)
R(a, b, c) == C("r", <<a, b, c>>)
Rows == { R(A("a"), A("b"), I(1)), R(A("a"), A("c"), I(2)), R(A("b"), A("b"), I(1)), R(A("a"), V(1), I(3)), R(V(1), V(1), I(1)), R(A("b"), A("c"), V(1)) }
Goals == { R(X, Y, Z), C("^", <<Y, R(X, Y, Z)>>), C("^", <<C("-", <<Y, Z>>), R(X, Y, Z)>>), C("^", <<X, C("^", <<Y, R(X, Y, Z)>>)>>),
           R(X, Y, I(1)), C(",", <<R(X, Y, Z), C("==", <<X, A("a")>>)>>), C(";", <<C("=", <<X, A("a")>>), C("=", <<Y, A("b")>>)>>),
           C("^", <<Z, C(",", <<R(X, Y, Z), R(Y, V(5), V(6))>>)>>), C(",", <<R(X, Y, Z), A("fail")>>) }
Templates == { X, Z, C("-", <<X, Y>>), C("f", <<X, Y, Z>>), A("k"), C("-", <<Z, X>>) }
Insts == { L, Cons(V(7), V(8)), Nil, MkList(<<I(1)>>), MkList(<<V(7), V(7)>>) }

Simple == { C(op, <<t, g, i>>) : op \in {"findall", "bagof", "setof"}, t \in Templates, g \in Goals, i \in Insts }
\* nesting: all groups collected by an outer findall; an inner findall as the goal of bagof (free variable X)
Nested == { C("findall", <<C("-", <<C("w", <<X, Y, Z>>), L>>), C(op, <<t, g, L>>), V(9)>>) : op \in {"bagof", "setof"}, t \in {Z, C("-", <<Z, X>>)}, g \in Goals }
          \cup { C(op, <<L, C(",", <<C("member", <<X, MkList(<<A("a"), A("b")>>)>>), C("findall", <<t, R(X, Y, Z), L>>)>>), V(9)>>) : op \in {"bagof", "setof"}, t \in {Y, Z} }

\* the goal (or the part under a ^) reaches bagof/setof through a variable bound at call time
Indirect == { C(",", <<C("=", <<V(9), inner>>), C(op, <<t, outer, L>>)>>) :
                op \in {"bagof", "setof"}, t \in {X, C("-", <<Z, X>>)},
                inner \in { C("^", <<Z, R(X, Y, Z)>>), R(X, Y, Z), C("^", <<Y, C("^", <<Z, R(X, Y, Z)>>)>>) },
                outer \in { C("^", <<Y, V(9)>>), V(9), C("^", <<X, C("^", <<Y, V(9)>>)>>) } }

MkCl(i, h) == LET vs == TermVars(h) IN [id |-> i, head |-> Renum(h, vs, 0), body |-> TrueA, nv |-> Len(vs)]
Db(rows) == << [key |-> <<"r", 3>>, dyn |-> FALSE, cls |-> [i \in 1..Len(rows) |-> MkCl(i, rows[i])]],
               [key |-> <<"member", 2>>, dyn |-> FALSE,
                cls |-> << [id |-> 101, head |-> C("member", <<V(1), Cons(V(1), V(2))>>), body |-> TrueA, nv |-> 2],
                           [id |-> 102, head |-> C("member", <<V(1), Cons(V(2), V(3))>>), body |-> C("member", <<V(1), V(3)>>), nv |-> 3] >>] >>

CONSTANTS NR,       \* number of rows of the table
          NEST,     \* TRUE: include the nested calls
          LISTS     \* TRUE: the sub-space of tables whose witnesses are lists (the replayer also builds them in pieces); "order": long tables
\* witnesses that are lists: the same list in two rows, a variant with an unbound tail, a plain row
RowsL == { R(A("a"), MkList(<<A("p"), A("q")>>), I(1)), R(A("b"), MkList(<<A("p"), A("q")>>), I(2)), R(A("a"), Cons(A("p"), V(1)), I(3)), R(A("a"), A("b"), I(1)),
           R(A("b"), MkList(<<A("p"), V(1)>>), I(2)) }
SimpleL == { C(op, <<t, g, i>>) : op \in {"findall", "bagof", "setof"}, t \in {X, Z, C("-", <<X, Y>>)},
                                  g \in {R(X, Y, Z), C("^", <<Z, R(X, Y, Z)>>), C("^", <<X, R(X, Y, Z)>>), C(",", <<R(X, Y, Z), C("==", <<X, A("a")>>)>>)},
                                  i \in {L, MkList(<<V(7), V(8)>>)} }
\* witnesses that are partially bound: the variable inside the witness f(_) is shared with the template's instance of the same
\* solution; all the witnesses of a group are unified, so that every instance of the group ends up with ONE variable there
\* (and setof's duplicates are decided after that); a later binding of the witness reaches every instance
RowsS == { R(C("-", <<I(1), V(1)>>), C("f", <<V(1)>>), I(1)), R(C("-", <<I(2), V(1)>>), C("f", <<V(1)>>), I(2)), R(C("g", <<V(1)>>), C("f", <<V(1)>>), I(3)),
           R(C("g", <<V(1)>>), C("f", <<V(2)>>), I(1)), R(A("a"), C("f", <<V(1)>>), I(1)) }
SimpleS == LET calls == { C(op, <<t, g, L>>) : op \in {"findall", "bagof", "setof"}, t \in {X, Z, C("-", <<X, Z>>)},
                                                 g \in {R(X, Y, Z), C("^", <<Z, R(X, Y, Z)>>), C("^", <<X, R(X, Y, Z)>>)} }
           IN calls \cup { C(",", <<c, C("=", <<Y, C("f", <<A("a")>>)>>)>>) : c \in calls }
\* a variable that occurs ONLY as the tail of a partial list with two elements before the bar (a representation of its own in the
\* implementation), in the goal (free: it belongs to the witness) or in the template (not free)
TailV == V(5)
PQ(t) == Cons(A("p"), Cons(A("q"), t))
RowsT == { R(A("a"), PQ(MkList(<<A("r")>>)), I(1)), R(A("b"), PQ(MkList(<<A("s")>>)), I(2)), R(A("a"), PQ(MkList(<<A("r")>>)), I(3)), R(A("a"), PQ(Nil), I(1)) }
SimpleT == { C(op, <<t, g, L>>) : op \in {"findall", "bagof", "setof"}, t \in {X, PQ(TailV), Cons(X, Cons(X, TailV)), C("-", <<X, Z>>)},
                                  g \in {R(X, PQ(TailV), Z), C("^", <<Z, R(X, PQ(TailV), Z)>>), C("^", <<PQ(TailV), R(X, PQ(TailV), Z)>>)} }
VARIABLES st, hist, q, rows
gvars == <<st, hist, q, rows>>
\* longer tables whose witnesses interleave (a, b, b, a / a, b, c, c, b, a / ...): every group must list its solutions in solution order
Wit(k) == CASE k = 1 -> A("a") [] k = 2 -> A("b") [] k = 3 -> A("c")
TableOf(pattern) == [i \in 1..Len(pattern) |-> R(A("a"), Wit(pattern[i]), I(i))]
TablesO == { TableOf(<<1, 2, 2, 1>>), TableOf(<<1, 2, 3, 3, 2, 1>>), TableOf(<<1, 2, 1, 2, 2, 1>>), TableOf(<<2, 1, 1, 3, 1, 2, 3>>), TableOf(<<1, 1, 2, 2, 1, 3, 2, 1>>) }
SimpleO == { C(op, <<t, g, L>>) : op \in {"findall", "bagof", "setof"}, t \in {Z, C("-", <<Z, X>>)},
                                  g \in {C("^", <<X, R(X, Y, Z)>>), R(X, Y, Z), C("^", <<X, C(",", <<R(X, Y, Z), C("\\==", <<Z, I(2)>>)>>)>>)} }
GInit == /\ rows \in (IF LISTS = "order" THEN TablesO ELSE [1..NR -> (IF LISTS = "lists" THEN RowsL ELSE IF LISTS = "share" THEN RowsS ELSE IF LISTS = "tail" THEN RowsT ELSE Rows)])
         /\ q \in (IF LISTS = "order" THEN SimpleO ELSE IF LISTS = "lists" THEN SimpleL ELSE IF LISTS = "share" THEN SimpleS ELSE IF LISTS = "tail" THEN SimpleT ELSE Simple \cup (IF NEST THEN Nested \cup Indirect ELSE {}))
         /\ st = InitState(Db(rows), q, 9)
         /\ hist = <<>>
GNext == /\ ~Terminal(st)
         /\ \E t \in Steps(st) : /\ ~(st.status = "answer" /\ t.status = "closed")
                                 /\ st' = t
                                 /\ hist' = IF t.ev.ev \in {"ans", "end"} THEN Append(hist, t.ev) ELSE hist
         /\ UNCHANGED <<q, rows>>
GSpec == GInit /\ [][GNext]_gvars
Emit == Judged(st) => PrintT("CASE " \o ToJson([db |-> Db(rows), query |-> q, qv |-> 9, events |-> hist, nocalls |-> TRUE,
                                                 ansorder |-> "free", vardep |-> st.vardep]))
Bound == Len(hist) < 100 /\ Len(st.bind) < 900

\* --- U1: the collection laws on the machine itself ---
\* (i) the store seen by the continuation of an all-solutions call differs from the store at the call only by the
\*     unification of the result: no binding made while solving the goal survives (checked when the marker is resolved)
IsCollectEnd(s) == s.status = "run" /\ s.goals # <<>> /\ ~IsCtl(s.goals[1].g) /\ Walk(s.goals[1].g, s.bind) = FailA
                   /\ s.cps # <<>> /\ s.cps[Len(s.cps)].k \in {"findall"}
NoLeak == [][IsCollectEnd(st) /\ st'.status = "run" /\ st'.goals # <<>> /\ st'.goals[1].g # FailA =>
               LET cp == st.cps[Len(st.cps)] IN
               \A k \in 1..Len(cp.bind) : cp.bind[k] # U => st'.bind[k] = cp.bind[k]]_gvars
=============================================================================
