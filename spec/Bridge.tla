------------------------------- MODULE Bridge -------------------------------
(* C15: Go values cross the API as data.                                                          *)
(* ToTerm(v, dq) is the term a Go value denotes as the argument of a '?' placeholder: integers    *)
(* and floats as numbers, slices as lists, strings as double-quoted text under the double_quotes  *)
(* flag - a list of character codes, a list of one-character atoms, or one atom - whatever        *)
(* characters the string contains: it is never re-read as Prolog syntax. Characters are given by  *)
(* their code points (TLA+ has no characters); <<"ch", c>> is the one-character atom, <<"at",     *)
(* cs>> the atom with those characters.                                                           *)
(* ScanInt(v, w): storing integer v into a signed destination of w bits must store exactly v when *)
(* v fits and must return an error otherwise - never a wrapped value.                             *)
EXTENDS BigInt, Json
\* character classes: letter, digit, space, single quote, double quote, backslash, '.', ':', '-', newline, NUL, '?', a non-BMP character, '%', '(', a 2-byte and a 3-byte character
Codes == {97, 49, 32, 39, 34, 92, 46, 58, 45, 10, 0, 63, 128512, 37, 40, 233, 26085}
DQ == {"codes", "chars", "atom"}
RECURSIVE ToTerm(_,_)
ToTerm(v, dq) ==
  CASE v[1] = "int" -> <<"int", v[2]>>
    [] v[1] = "float" -> <<"float", v[2]>>
    [] v[1] = "str" -> (CASE dq = "codes" -> <<"list", [i \in 1..Len(v[2]) |-> <<"int", v[2][i]>>]>>
                          [] dq = "chars" -> <<"list", [i \in 1..Len(v[2]) |-> <<"ch", v[2][i]>>]>>
                          [] dq = "atom" -> <<"at", v[2]>>)
    [] v[1] = "list" -> <<"list", [i \in 1..Len(v[2]) |-> ToTerm(v[2][i], dq)]>>

CONSTANT NS        \* maximal string length
Strings == UNION { [1..k -> Codes] : k \in 0..NS }
Str(s) == <<"str", s>>
Fixed == { <<"int", 0>>, <<"int", -1>>, <<"int", 42>>, <<"float", 1>>, <<"float", -5>>, <<"float", 0>>,
           <<"list", <<>> >>, <<"list", <<<<"int", 1>>, <<"int", 2>>>> >>, <<"list", <<Str(<<97, 39>>), Str(<<>>), Str(<<34, 92>>)>> >>,
           <<"list", << <<"list", <<<<"int", 1>>>> >>, <<"list", <<>> >>, <<"list", <<<<"int", 2>>, <<"int", 3>>>> >> >> >>,
           <<"list", << <<"list", <<Str(<<46, 58, 45>>)>> >> >> >> }
Values == { Str(s) : s \in Strings } \cup Fixed

\* integer widths
Widths == {8, 16, 32, 64}
IntVals(w) == LET lo == Neg(Pow2(w - 1)) hi == Dec(Pow2(w - 1)) IN
              { lo, Inc(lo), FromInt(-1), Zero, FromInt(1), Dec(hi), hi } \cup (IF w < 64 THEN { Dec(lo), Inc(hi), Mul(FromInt(3), Pow2(w - 2)) } ELSE {})
AllInts == UNION { IntVals(w) : w \in Widths } \cup { FromInt(300), FromInt(-200), Add(Pow2(31), FromInt(705032704)) }     \* 300 -> int8, 3000000000 -> int32
Fits(v, w) == Cmp(v, Neg(Pow2(w - 1))) >= 0 /\ Cmp(v, Dec(Pow2(w - 1))) <= 0
\* an integer answer scanned into a float destination with a p-bit significand (float32: 24, float64: 53): exactly v or an error.
\* v is representable iff its binary digits after the first p are all zero.
Representable(v, p) == LET bs == BitsOf(v.mag) IN \A i \in (p + 1)..Len(bs) : bs[i] = 0
FloatDests == {24, 53}
FloatInts == { FromInt(0), FromInt(1), FromInt(-3), Pow2(24), Inc(Pow2(24)), Add(Pow2(24), FromInt(2)), Neg(Inc(Pow2(24))), Pow2(53), Inc(Pow2(53)), Add(Pow2(53), FromInt(2)),
               Neg(Inc(Pow2(53))), Dec(Pow2(63)), Neg(Pow2(63)), Add(Pow2(62), FromInt(1)), Mul(FromInt(3), Pow2(60)) }

\* a list of integers scanned into a Go string: the text whose code points they are, or an error - every element must be a Unicode
\* scalar value (0..D7FF, E000..10FFFF); anything else cannot be stored in a string unaltered
IsScalar(v) == ~v.neg /\ (Cmp(v, FromInt(55295)) <= 0 \/ (Cmp(v, FromInt(57344)) >= 0 /\ Cmp(v, FromInt(1114111)) <= 0))
CodeVals == { FromInt(97), FromInt(233), FromInt(26085), FromInt(-1), FromInt(55296), FromInt(1114112), Add(Pow2(32), FromInt(98)), Pow2(31), FromInt(0) }
CodeLists == { <<x>> : x \in CodeVals } \cup { <<FromInt(97), x>> : x \in CodeVals } \cup { <<x, FromInt(98), FromInt(99)>> : x \in CodeVals }
\* The count of placeholders and arguments. A text is a first term holding np '?' and a trailer after its end token; the entry
\* points that read ONE term (Query, QuerySolution) must refuse it iff np differs from the number of arguments, whatever the trailer
\* is (they never read it); Exec reads the whole text: a mismatch with the total count is an error; when the counts agree and all
\* the placeholders are in the first clause it must load (the counts agree but the placeholders are spread over several clauses:
\* the implementation refuses that, too - consumed per clause -, and the property leaves it open).
Trailers == { [id |-> "none", nph |-> 0, valid |-> TRUE], [id |-> "layout", nph |-> 0, valid |-> TRUE], [id |-> "comment", nph |-> 0, valid |-> TRUE],
              [id |-> "clause", nph |-> 0, valid |-> TRUE], [id |-> "clause1", nph |-> 1, valid |-> TRUE], [id |-> "clause2", nph |-> 2, valid |-> TRUE],
              [id |-> "line", nph |-> 0, valid |-> TRUE], [id |-> "broken", nph |-> 0, valid |-> FALSE] }
Entries == {"query", "solution", "exec"}
CountCases == [np : 0..2, na : 0..3, tr : Trailers, entry : Entries]
CountVerdict(cc) == IF cc.entry # "exec" THEN (IF cc.np = cc.na THEN "ok" ELSE "error")
                    ELSE IF ~cc.tr.valid \/ cc.np + cc.tr.nph # cc.na THEN "error"
                    ELSE IF cc.tr.nph = 0 THEN "ok" ELSE "open"
VARIABLES kind, val, dq, w, done
vars == <<kind, val, dq, w, done>>
Init == \/ kind = "value" /\ val \in Values /\ dq \in DQ /\ w = 0 /\ done = FALSE
        \/ kind = "scanint" /\ val \in AllInts /\ dq = "codes" /\ w \in Widths /\ done = FALSE
        \/ kind = "scanfloat" /\ val \in FloatInts /\ dq = "codes" /\ w \in FloatDests /\ done = FALSE
        \/ kind = "scanstr" /\ val \in CodeLists /\ dq \in DQ /\ w = 0 /\ done = FALSE
        \/ kind = "count" /\ val \in CountCases /\ dq = "codes" /\ w = 0 /\ done = FALSE
Next == ~done /\ done' = TRUE /\ UNCHANGED <<kind, val, dq, w>>
Spec == Init /\ [][Next]_vars
Emit == done => PrintT("CASE " \o ToJson(IF kind = "count" THEN [kind |-> kind, np |-> val.np, na |-> val.na, trailer |-> val.tr.id, entry |-> val.entry, verdict |-> CountVerdict(val)]
                                          ELSE IF kind = "scanstr" THEN [kind |-> kind, codes |-> val, dq |-> dq, valid |-> \A i \in 1..Len(val) : IsScalar(val[i])]
                                          ELSE IF kind = "value" THEN [kind |-> kind, val |-> val, dq |-> dq, term |-> ToTerm(val, dq)]
                                          ELSE [kind |-> kind, v |-> val, w |-> w, fits |-> IF kind = "scanint" THEN Fits(val, w) ELSE Representable(val, w)]))
\* --- laws ---
\* the length of the text is preserved in every representation (characters, not bytes); a string never becomes anything but text of that flag's shape
Shape == (done /\ kind = "value" /\ val[1] = "str") =>
           LET t == ToTerm(val, dq) IN IF dq = "atom" THEN t[1] = "at" /\ Len(t[2]) = Len(val[2]) ELSE t[1] = "list" /\ Len(t[2]) = Len(val[2])
=============================================================================
