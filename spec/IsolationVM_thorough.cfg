SPECIFICATION Spec
CONSTANT N = 3
INVARIANT Emit
PROPERTY Isolated
CHECK_DEADLOCK FALSE
