--------------------------- MODULE IsolationTrace ---------------------------
(* Trace validation for the atom table: the hook inside NewAtom's critical section logs          *)
(* (name, atom, length of the names slice) for every newly interned atom while several           *)
(* interpreters run concurrently. The log must be a behaviour of the table of Isolation.tla:     *)
(* the slice grows by exactly one per event, atoms are handed out densely in slice order, and no *)
(* name is interned twice - a lost lock shows up as an impossible table evolution even when the  *)
(* race detector's schedule misses it.                                                           *)
EXTENDS Integers, Sequences, FiniteSets, TLC, Json, IOUtils
Trace == ndJsonDeserialize(IOEnv.TRACE)
VARIABLES size, seen, l
tvars == <<size, seen, l>>
TInit == Trace[1].ev = "init" /\ size = Trace[1].size /\ seen = {} /\ l = 2 /\ TLCSet(1, 2)
TIntern == /\ l <= Len(Trace) /\ Trace[l].ev = "intern"
           /\ Trace[l].n = size + 1                        \* append: the slice grew by one
           /\ Trace[l].id = Trace[1].base + size           \* atoms are dense, in slice order
           /\ Trace[l].name \notin seen                    \* no name is interned twice
           /\ size' = size + 1 /\ seen' = seen \cup {Trace[l].name} /\ l' = l + 1
TReset == /\ l <= Len(Trace) /\ Trace[l].ev = "init"
          /\ size' = Trace[l].size /\ seen' = {} /\ l' = l + 1
TSpec == TInit /\ [][TIntern \/ TReset]_tvars
HW == TLCSet(1, IF TLCGet(1) < l THEN l ELSE TLCGet(1))
Accepted == IF TLCGet(1) = Len(Trace) + 1 THEN TRUE
            ELSE PrintT("REJECTED " \o ToString(TLCGet(1)) \o " " \o ToString(Len(Trace))) /\ FALSE
=============================================================================
