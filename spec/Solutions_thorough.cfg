SPECIFICATION Spec
CONSTANTS N = 7
          NI = 1
          KINDSET = "all"
INVARIANT TrueCount
INVARIANT NoTrueAfterFalse
INVARIANT CloseOnceNil
INVARIANT BoundedByKind
INVARIANT Emit
PROPERTY Independent
CHECK_DEADLOCK FALSE
