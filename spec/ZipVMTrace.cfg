SPECIFICATION TSpec
CHECK_DEADLOCK FALSE
CONSTRAINT HW
POSTCONDITION Accepted
