------------------------------- MODULE GenDb -------------------------------
(* C09: exhaustive database histories over the dynamic predicate p/1 (duplicate clauses, a     *)
(* clause with a variable, a rule, a distinguished last clause). A history is a sequence of N top-level steps; after every step the *)
(* clause list of p/1 is observed through clause/2 (reported by the probe w/1). Steps are      *)
(* plain updates and failure-driven loops that update p/1 while a call to p/1, a retract/1 or  *)
(* a clause/2 on it is still open for backtracking.                                            *)
EXTENDS Engine, Json

CONSTANTS N,         \* number of top-level steps
          DOUBLE,    \* TRUE: the steps are loops with two updates per iteration
          ARITY0     \* TRUE: the same histories over q/0 - every clause head is the atom q, so that all the facts are duplicates of each
                     \* other and only the clause identity tells them apart (F26)
P(t) == IF ARITY0 THEN A("q") ELSE C("p", <<t>>)
PKey == IF ARITY0 THEN <<"q", 0>> ELSE <<"p", 1>>
PInd == IF ARITY0 THEN C("/", <<A("q"), I(0)>>) ELSE C("/", <<A("p"), I(1)>>)
X == V(1)
L == V(2)
Conj2(a, b) == C(",", <<a, b>>)
Upd == { C("assertz", <<P(I(7))>>), C("asserta", <<P(I(7))>>), C("retract", <<P(I(2))>>), C("once", <<C("retract", <<P(V(3))>>)>>),
         C("retract", <<P(X)>>), C("retractall", <<P(I(2))>>), C("retract", <<P(I(3))>>), A("true"),       \* p(3) is the last clause
         C("retract", <<C(":-", <<P(I(4)), V(4)>>)>>), C("retractall", <<P(I(4))>>),                        \* p(4) :- w(4) is a rule
         C("retract", <<C(":-", <<P(I(0)), V(4)>>)>>) }                                                      \* the first clause, a rule with a disjunctive body
\* two updates in one iteration (e.g. remove the last clause, then append a new one)
Upd2 == { Conj2(u1, u2) : u1 \in Upd \ {A("true")}, u2 \in Upd \ {A("true")} }
Plain == { C("assertz", <<P(I(8))>>), C("asserta", <<P(I(0))>>), C("assertz", <<P(V(3))>>), C("retract", <<P(I(2))>>), C("retract", <<P(V(3))>>),
           C("retract", <<C(":-", <<P(V(3)), V(4)>>)>>), C("retractall", <<P(V(3))>>), C("retractall", <<P(I(2))>>), C("abolish", <<PInd>>),
           C("retract", <<C(":-", <<P(I(4)), V(4)>>)>>), C("retract", <<P(I(4))>>), C("retractall", <<P(I(4))>>), C("retractall", <<P(C("f", <<I(1)>>))>>),
           C("assertz", <<C(":-", <<P(I(5)), C("w", <<I(5)>>)>>)>>), C("asserta", <<C(":-", <<P(V(3)), C("w", <<V(3)>>)>>)>>),
           C("retract", <<C(":-", <<P(I(0)), V(4)>>)>>), C("retractall", <<P(I(0))>>), C("asserta", <<C(":-", <<P(I(6)), C(";", <<C("w", <<I(6)>>), C("w", <<I(7)>>)>>)>>)>>) }
\* an opener leaves a call / a retract / a clause/2 on p/1 open for backtracking; the probe w(X) shows each solution
Open(o) == Conj2(o, C("w", <<X>>))
Openers == { P(X), C("retract", <<P(X)>>), C("clause", <<P(X), A("true")>>) }
Step1 == IF DOUBLE THEN { Conj2(Open(o), u) : o \in Openers, u \in Upd2 }
         ELSE Plain
              \cup { Conj2(Open(P(X)), u) : u \in Upd }
              \cup { Conj2(Open(C("retract", <<P(X)>>)), u) : u \in Upd \ {C("retract", <<P(X)>>)} }
              \cup { Conj2(Open(C("clause", <<P(X), A("true")>>)), u) : u \in Upd }

RECURSIVE Disj(_)
Disj(s) == IF Len(s) = 1 THEN s[1] ELSE C(";", <<s[1], Disj(Tail(s))>>)
\* observation after a step: the clause list as seen by clause/2 (heads and bodies), reported through the probe
Observe == Conj2(C("findall", <<C("-", <<X, V(5)>>), C("clause", <<P(X), V(5)>>), L>>), Conj2(C("w", <<L>>), A("fail")))
RECURSIVE Interleave(_)
Interleave(steps) == IF steps = <<>> THEN <<>> ELSE <<Conj2(steps[1], A("fail")), Observe>> \o Interleave(Tail(steps))
Query(steps) == Disj(Interleave(steps) \o << C("catch", <<C("findall", <<X, P(X), L>>), V(6), C("=", <<L, A("gone")>>)>> ) >>)

Db0 == << [key |-> PKey, dyn |-> TRUE, cls |-> << [id |-> 10, head |-> P(I(0)), body |-> C(";", <<C("w", <<I(0)>>), C("w", <<I(9)>>)>>), nv |-> 0],   \* p(0) :- w(0) ; w(9).  (ONE clause)
                                                        [id |-> 1, head |-> P(I(1)), body |-> TrueA, nv |-> 0],
                                                        [id |-> 2, head |-> P(I(2)), body |-> TrueA, nv |-> 0],
                                                        [id |-> 3, head |-> P(C("f", <<V(1)>>)), body |-> TrueA, nv |-> 1],
                                                        [id |-> 4, head |-> P(I(2)), body |-> TrueA, nv |-> 0],
                                                        [id |-> 5, head |-> P(I(4)), body |-> C("w", <<I(4)>>), nv |-> 0],
                                                        [id |-> 6, head |-> P(I(3)), body |-> TrueA, nv |-> 0] >>],
          [key |-> <<"w", 1>>, dyn |-> FALSE, cls |-> << [id |-> 7, head |-> C("w", <<V(1)>>), body |-> TrueA, nv |-> 1] >>] >>

VARIABLES st, hist, steps
gvars == <<st, hist, steps>>

GInit == /\ steps \in [1..N -> Step1]
         /\ st = InitStateX(Db0, Query(steps), 2, 6)
         /\ hist = <<>>

GNext == /\ ~Terminal(st)
         /\ \E t \in Steps(st) : /\ ~(st.status = "answer" /\ t.status = "closed")
                                 /\ st' = t
                                 /\ hist' = IF t.ev # NoEv THEN Append(hist, t.ev) ELSE hist
         /\ UNCHANGED steps

GSpec == GInit /\ [][GNext]_gvars
Emit == Judged(st) => PrintT("CASE " \o ToJson([db |-> Db0, query |-> Query(steps), qv |-> 2, events |-> hist]))
Bound == Len(hist) < 200 /\ Len(st.bind) < 600

\* --- U1 ---
\* logical update view: an open clause choice point only ever loses alternatives from the front; updates never reach it
LUV == [][\A i \in 1..Len(st.cps) :
            (i <= Len(st'.cps) /\ st.cps[i].k \in {"cl", "retract"} /\ st'.cps[i].k = st.cps[i].k /\ st.cps[i].rest = st'.cps[i].rest /\ st.cps[i].bind = st'.cps[i].bind)
              => \E j \in 0..Len(st.cps[i].alts) : st'.cps[i].alts = SubSeq(st.cps[i].alts, j + 1, Len(st.cps[i].alts))]_gvars
\* clause identities in the database are unique (a clause is removed at most once, never duplicated)
ClauseIds(db) == UNION { { db[i].cls[j].id : j \in 1..Len(db[i].cls) } : i \in 1..Len(db) }
IdsUnique == \A i \in 1..Len(st.db) : \A j, k \in 1..Len(st.db[i].cls) : j # k => st.db[i].cls[j].id # st.db[i].cls[k].id
\* a removed clause never comes back; surviving clauses keep their relative order; asserta/assertz insert at the ends
Order(cls) == [j \in 1..Len(cls) |-> cls[j].id]
PCls(s) == IF HasPred(s.db, PKey) THEN Order(Pred(s.db, PKey).cls) ELSE <<>>
RECURSIVE IsSubseq(_,_)
IsSubseq(a, b) == IF a = <<>> THEN TRUE ELSE IF b = <<>> THEN FALSE
                  ELSE IF a[1] = b[1] THEN IsSubseq(Tail(a), Tail(b)) ELSE IsSubseq(a, Tail(b))     \* greedy is exact: ids are unique
DbStep == [][LET old == PCls(st) new == PCls(st') IN
             \/ new = old
             \/ Len(new) = Len(old) + 1 /\ (SubSeq(new, 2, Len(new)) = old \/ SubSeq(new, 1, Len(old)) = old) /\ new[IF SubSeq(new, 2, Len(new)) = old THEN 1 ELSE Len(new)] >= 1000
             \/ Len(new) < Len(old) /\ IsSubseq(new, old)]_gvars
=============================================================================
