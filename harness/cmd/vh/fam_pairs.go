package main

// Family "pairs" (C02, C08): cases are pairs of terms from GenPairs.tla with the outcome of unification (=/2, with
// occurs check, against a clause head) and of the standard order. The handler builds both terms through seeded
// constructor paths (bracket literal, '|' notation, './2, double-quoted text, append/3, atom_chars/2, =../2, findall/3,
// length/2) - the outcome must not depend on the representation - and tests them at every site.

import (
	"encoding/json"
	"fmt"
	"hash/fnv"
	"math/rand"
	"reflect"
	"strconv"
	"strings"

	"github.com/ichiban/prolog"

	"verifharness/internal/jt"
)

func init() {
	register("pairs", &family{handle: pairsHandle})
	register("sorts", &family{handle: sortsHandle})
}

type builder struct {
	r     *rand.Rand
	goals []string
	nb    int
	paths []string
	plain bool // literal notation only
	// compact: lists of small letters / of their codes are made by atom_chars/2 / atom_codes/2 (the compact representations)
	compact bool
}

func (b *builder) fresh() string { b.nb++; return fmt.Sprintf("B%d", b.nb) }

func isCons(t J) bool {
	a := t.([]J)
	return a[0] == "c" && a[1] == "." && len(a[2].([]J)) == 2
}

func isNil(t J) bool { a := t.([]J); return a[0] == "a" && a[1] == "[]" }

func ground(t J) bool { return jt.MaxVar(t) == 0 }

// term returns Prolog text denoting t; list-valued subterms may be built by auxiliary goals.
func (b *builder) term(t J) string {
	a := t.([]J)
	switch a[0].(string) {
	case "c":
		if isCons(t) {
			return b.list(t)
		}
		args := a[2].([]J)
		parts := make([]string, len(args))
		for i, x := range args {
			parts[i] = b.term(x)
		}
		f := jt.Atom(a[1].(string))
		if a[1] == "." {
			f = "'.'"
		}
		if !b.plain && b.r.Intn(5) == 0 {
			v := b.fresh()
			b.goals = append(b.goals, fmt.Sprintf("%s =.. [%s]", v, strings.Join(append([]string{f}, parts...), ", ")))
			b.paths = append(b.paths, "univ")
			return v
		}
		return f + "(" + strings.Join(parts, ",") + ")"
	default:
		return jt.Render(t)
	}
}

func (b *builder) list(t J) string {
	var elems []J
	cur := t
	for isCons(cur) {
		args := cur.([]J)[2].([]J)
		elems = append(elems, args[0])
		cur = args[1]
	}
	tail := cur
	proper := isNil(tail)
	es := make([]string, len(elems))
	for i, e := range elems {
		es[i] = b.term(e)
	}
	tl := ""
	if !proper {
		tl = b.term(tail)
	}
	chars := proper
	for _, e := range elems {
		ea := e.([]J)
		if ea[0] != "a" || len(ea[1].(string)) != 1 || ea[1].(string) < "a" || ea[1].(string) > "z" {
			chars = false
		}
	}
	codes := proper // a list of the codes of small letters: atom_codes/2 delivers it in its compact form
	for _, e := range elems {
		ea := e.([]J)
		if n, ok := ea[1].(float64); ea[0] != "i" || !ok || n < 97 || n > 122 {
			codes = false
		}
	}
	lit := func(xs []string, tail string) string {
		if len(xs) == 0 {
			if tail == "" {
				return "[]"
			}
			return tail
		}
		s := "[" + strings.Join(xs, ",")
		if tail != "" {
			s += "|" + tail
		}
		return s + "]"
	}
	if b.plain {
		return lit(es, tl)
	}
	for {
		pick := b.r.Intn(11)
		if b.compact && chars {
			pick = 6
		} else if b.compact && codes {
			pick = 10
		}
		switch pick {
		case 0, 1:
			b.paths = append(b.paths, "literal")
			return lit(es, tl)
		case 2:
			b.paths = append(b.paths, "bar")
			s := tl
			if proper {
				s = "[]"
			}
			for i := len(es) - 1; i >= 0; i-- {
				s = "[" + es[i] + "|" + s + "]"
			}
			return s
		case 3:
			b.paths = append(b.paths, "dot")
			s := tl
			if proper {
				s = "[]"
			}
			for i := len(es) - 1; i >= 0; i-- {
				s = "'.'(" + es[i] + "," + s + ")"
			}
			return s
		case 4:
			k := b.r.Intn(len(es) + 1)
			v := b.fresh()
			b.goals = append(b.goals, fmt.Sprintf("append(%s, %s, %s)", lit(es[:k], ""), lit(es[k:], tl), v))
			b.paths = append(b.paths, "append")
			return v
		case 5:
			if chars {
				var sb strings.Builder
				for _, e := range elems {
					sb.WriteString(e.([]J)[1].(string))
				}
				b.paths = append(b.paths, "dq")
				return "\"" + sb.String() + "\""
			}
		case 6:
			if chars {
				var sb strings.Builder
				for _, e := range elems {
					sb.WriteString(e.([]J)[1].(string))
				}
				v := b.fresh()
				b.goals = append(b.goals, fmt.Sprintf("atom_chars(%s, %s)", sb.String(), v))
				b.paths = append(b.paths, "atom_chars")
				return v
			}
		case 10:
			if codes {
				var sb strings.Builder
				for _, e := range elems {
					sb.WriteRune(rune(e.([]J)[1].(float64)))
				}
				v := b.fresh()
				b.goals = append(b.goals, fmt.Sprintf("atom_codes(%s, %s)", sb.String(), v))
				b.paths = append(b.paths, "atom_codes")
				return v
			}
		case 7:
			v := b.fresh()
			rest := lit(es[1:], tl)
			b.goals = append(b.goals, fmt.Sprintf("%s =.. ['.', %s, %s]", v, es[0], rest))
			b.paths = append(b.paths, "univ-list")
			return v
		case 8:
			if proper && ground(t) {
				v, x := b.fresh(), b.fresh()
				b.goals = append(b.goals, fmt.Sprintf("findall(%s, member(%s, %s), %s)", x, x, lit(es, ""), v))
				b.paths = append(b.paths, "findall")
				return v
			}
		case 9:
			if proper {
				v := b.fresh()
				b.goals = append(b.goals, fmt.Sprintf("length(%s, %d), %s = %s", v, len(es), v, lit(es, "")))
				b.paths = append(b.paths, "length")
				return v
			}
		}
	}
}

func caseSeed(c map[string]J, salt string) int64 {
	b, _ := json.Marshal([]J{c["x"], c["y"], c["l"]})
	h := fnv.New64a()
	h.Write(b)
	h.Write([]byte(salt))
	h.Write([]byte(opt("seed")))
	return int64(h.Sum64() >> 1)
}

// runVec runs a query and returns (ran, solved, canonical vector of V1..Vn, other scalar answers).
func runVec(p *prolog.Interpreter, q string, nv int, scalars ...string) (bool, []J, map[string]string, error) {
	sols, err := p.Query(q)
	if err != nil {
		return false, nil, nil, err
	}
	defer sols.Close()
	if !sols.Next() {
		return false, nil, nil, sols.Err()
	}
	got := map[string]capture{}
	if err := sols.Scan(got); err != nil {
		return false, nil, nil, err
	}
	cn := jt.NewCanon(nil)
	vec := []J{}
	for i := 1; i <= nv; i++ {
		cv, ok := got[fmt.Sprintf("V%d", i)]
		if !ok {
			// the variable does not occur in the query: unbound, distinct
			vec = append(vec, cn.Term(newVar()))
			continue
		}
		cn.Env = cv.env
		vec = append(vec, cn.Term(cv.term))
	}
	sc := map[string]string{}
	for _, n := range scalars {
		if cv, ok := got[n]; ok {
			sc[n] = obsText(cv.term, cv.env)
		}
	}
	var back []J
	bs, _ := json.Marshal(vec)
	_ = json.Unmarshal(bs, &back)
	return true, back, sc, nil
}

func pairsHandle(c map[string]J) map[string]J {
	const nv = 3
	rounds := 3
	if n, err := strconv.Atoi(opt("rounds")); err == nil {
		rounds = n
	}
	xs, ys := jt.Render(c["x"]), jt.Render(c["y"])
	input := fmt.Sprintf("x = %s, y = %s", xs, ys)
	fail := func(site, q, what string, exp, obs J) map[string]J {
		return map[string]J{"status": "mismatch", "input": input + " | site " + site + " | ?- " + q, "what": what, "expected": exp, "observed": obs}
	}
	// the bindings in force before x and y meet (an earlier goal Vk = t); after a failed unification exactly they remain
	unbound := []J{[]J{"v", 1.0}, []J{"v", 2.0}, []J{"v", 3.0}}
	earlier := ""
	if pr, ok := c["pre"].([]J); ok && jt.Int(pr[0]) > 0 {
		earlier = fmt.Sprintf("V%d = %s, ", jt.Int(pr[0]), jt.Render(pr[1]))
		unbound = c["b0"].([]J)
		input = fmt.Sprintf("earlier goal %sx = %s, y = %s", earlier, xs, ys)
	}
	sto, _ := c["sto"].(bool)
	hsto, _ := c["hsto"].(bool)
	for round := 0; round < rounds; round++ {
		b := &builder{r: rand.New(rand.NewSource(caseSeed(c, strconv.Itoa(round)))), plain: round == 0, compact: round == 1}
		tx := b.term(c["x"])
		ty := b.term(c["y"])
		pre := earlier + strings.Join(append(b.goals, "true"), ", ")
		p := prolog.New(nil, nil)
		type site struct {
			name, test string
			ok         bool
			vec        J
			skip       bool
		}
		sites := []site{
			{"=/2", fmt.Sprintf("%s = %s", tx, ty), c["ok"].(bool), c["b"], sto},
			{"=/2 (arguments swapped)", fmt.Sprintf("%s = %s", ty, tx), c["ok"].(bool), c["b"], sto},
			{"unify_with_occurs_check/2", fmt.Sprintf("unify_with_occurs_check(%s, %s)", tx, ty), c["occ"].(bool), c["bocc"], false},
			{"unify_with_occurs_check/2 (arguments swapped)", fmt.Sprintf("unify_with_occurs_check(%s, %s)", ty, tx), c["occ"].(bool), c["bocc"], false},
		}
		for _, s := range sites {
			if s.skip {
				continue
			}
			// alternatives of the QUERY itself, goals in plain conjunction: a control construct (->, ;, \+ inside a conjunction) would
			// run its goal through call/1, which compiles it with the bindings applied - the terms would meet flattened and
			// the earlier bindings / the way a list was built would never reach the unifier
			q := fmt.Sprintf("(%s, %s, %s == %s, R = yes) ; (%s, %s, R = notidentical) ; (%s, R = no).", pre, s.test, tx, ty, pre, s.test, pre)
			solved, vec, sc, err := runVec(p, q, nv, "R")
			if err != nil || !solved {
				return fail(s.name, q, "query did not run", "an answer", fmt.Sprint(err))
			}
			want := "chr:no"
			wantVec := J(unbound)
			if s.ok {
				want, wantVec = "chr:yes", s.vec
			}
			if sc["R"] != want {
				return fail(s.name, q, "success of unification / identity afterwards", want, sc["R"])
			}
			if !reflect.DeepEqual(vec, wantVec) {
				return fail(s.name, q, "bindings of V1..V3 (canonical; after a failure all must be unbound)", wantVec, vec)
			}
		}
		// clause-head unification: y is the head argument of a clause (renamed apart), loaded by consult and by assertz
		if !hsto {
			hb := &builder{r: rand.New(rand.NewSource(caseSeed(c, "h"+strconv.Itoa(round)))), plain: true}
			if round > 0 {
				hb.plain = false
			}
			// in clause text only notations are available (no auxiliary goals): literal, bar, dot, double quotes
			head := jt.Render(c["y"])
			if err := p.Exec(fmt.Sprintf("hc(%s).", head)); err != nil {
				return fail("consult", head, "loading the clause", "ok", err.Error())
			}
			yb := &builder{r: rand.New(rand.NewSource(caseSeed(c, "ha"+strconv.Itoa(round)))), plain: round == 0}
			tya := yb.term(c["y"])
			qa := strings.Join(append(yb.goals, fmt.Sprintf("assertz(ha(%s))", tya)), ", ") + "."
			if sol := p.QuerySolution(qa); sol.Err() != nil {
				return fail("assertz", qa, "asserting the clause", "ok", sol.Err().Error())
			}
			_ = hb
			for _, pred := range []string{"hc", "ha"} {
				q := fmt.Sprintf("(%s, %s(%s), R = yes) ; (%s, R = no).", pre, pred, tx, pre)
				solved, vec, sc, err := runVec(p, q, nv, "R")
				if err != nil || !solved {
					return fail("clause head ("+pred+")", q, "query did not run", "an answer", fmt.Sprint(err))
				}
				want, wantVec := "chr:no", J(unbound)
				if c["hok"].(bool) {
					want, wantVec = "chr:yes", c["hb"]
				}
				if sc["R"] != want {
					return fail("clause head ("+pred+")", q, "success of head unification", want, sc["R"])
				}
				if !reflect.DeepEqual(vec, wantVec) {
					return fail("clause head ("+pred+")", q, "bindings of V1..V3 after head unification", wantVec, vec)
				}
			}
		}
		// standard order
		q := fmt.Sprintf("%s, compare(O, %s, %s), compare(P, %s, %s).", pre, tx, ty, ty, tx)
		solved, _, sc, err := runVec(p, q, nv, "O", "P")
		if err != nil || !solved {
			return fail("compare/3", q, "query did not run", "an answer", fmt.Sprint(err))
		}
		o := strings.TrimPrefix(sc["O"], "chr:")
		dep, _ := c["dep"].(bool)
		if !dep {
			want := map[float64]string{-1: "<", 0: "=", 1: ">"}[c["cmp"].(float64)]
			if o != want {
				return fail("compare/3", q, "order of x and y", want, o)
			}
		}
		if dep {
			// the order of two distinct unbound variables may even change between two calls of one conjunction (the
			// operators are defined by clauses whose head unification aliases variables): laws relating several calls
			// are not asserted for such pairs
			continue
		}
		// the six operators and the swapped comparison agree with compare/3
		t := func(b bool) string {
			if b {
				return "chr:t"
			}
			return "chr:f"
		}
		wantOps := map[string]string{"EQ": t(o == "="), "NE": t(o != "="), "LT": t(o == "<"), "LE": t(o != ">"), "GT": t(o == ">"), "GE": t(o != "<"),
			"P": "chr:" + map[string]string{"<": ">", "=": "=", ">": "<"}[o]}
		if sc["P"] != wantOps["P"] {
			return fail("term comparison", q, "compare/3 with the arguments swapped", wantOps["P"], sc["P"])
		}
		// each operator in a query of its own, as a plain goal after the goals that build the terms (see above: no call/1 in between)
		for k, op := range map[string]string{"EQ": "==", "NE": "\\==", "LT": "@<", "LE": "@=<", "GT": "@>", "GE": "@>="} {
			q := fmt.Sprintf("(%s, %s %s %s, R = t) ; (%s, R = f).", pre, tx, op, ty, pre)
			solved, _, sc, err := runVec(p, q, nv, "R")
			if err != nil || !solved {
				return fail("term comparison", q, "query did not run", "an answer", fmt.Sprint(err))
			}
			if sc["R"] != wantOps[k] {
				return fail("term comparison", q, "consistency of "+op+" with compare/3 = "+o, wantOps[k], sc["R"])
			}
		}
	}
	return map[string]J{"status": "ok", "input": input}
}

func sortsHandle(c map[string]J) map[string]J {
	l := c["l"].([]J)
	var es []string
	for _, e := range l {
		es = append(es, jt.Render(e))
	}
	input := "list [" + strings.Join(es, ",") + "]"
	if dep, _ := c["dep"].(bool); dep {
		return map[string]J{"status": "discard", "why": "var-order-dependent", "input": input}
	}
	canonList := func(ts []J) J {
		// the expected list as a canonical term vector (variables numbered by first occurrence over V1, V2 then the list)
		return ts
	}
	_ = canonList
	for round := 0; round < 2; round++ {
		b := &builder{r: rand.New(rand.NewSource(caseSeed(c, "s"+strconv.Itoa(round)))), plain: round == 0, compact: round == 1}
		lt := "[]"
		if len(l) > 0 {
			lt = b.list(jt.List(l, nil))
		}
		var ps []string
		for i, e := range l {
			ps = append(ps, fmt.Sprintf("%s-%d", b.term(e), i+1))
		}
		pre := strings.Join(append(b.goals, "true"), ", ")
		p := prolog.New(nil, nil)
		q := fmt.Sprintf("%s, sort(%s, S), keysort([%s], K), (setof(X, member(X, %s), T) -> true ; T = none).", pre, lt, strings.Join(ps, ","), lt)
		sols, err := p.Query(q)
		if err != nil {
			return map[string]J{"status": "mismatch", "input": input + " | ?- " + q, "what": "query did not parse", "expected": "ok", "observed": err.Error()}
		}
		if !sols.Next() {
			e := fmt.Sprint(sols.Err())
			sols.Close()
			return map[string]J{"status": "mismatch", "input": input + " | ?- " + q, "what": "sort/keysort/setof did not succeed", "expected": "success", "observed": e}
		}
		got := map[string]capture{}
		_ = sols.Scan(got)
		sols.Close()
		// canonical comparison: V1, V2 first, then the answer term
		canon := func(name string) J {
			cn := jt.NewCanon(nil)
			for i := 1; i <= 2; i++ {
				if cv, ok := got[fmt.Sprintf("V%d", i)]; ok {
					cn.Env = cv.env
					cn.Term(cv.term)
				} else {
					cn.Term(newVar())
				}
			}
			cv := got[name]
			cn.Env = cv.env
			var back J
			bs, _ := json.Marshal(cn.Term(cv.term))
			_ = json.Unmarshal(bs, &back)
			return back
		}
		wantSorted := jt.List(c["sorted"].([]J), nil)
		var wb J
		bs, _ := json.Marshal(wantSorted)
		_ = json.Unmarshal(bs, &wb)
		if gs := canon("S"); !reflect.DeepEqual(gs, wb) {
			return map[string]J{"status": "mismatch", "input": input + " | ?- " + q, "what": "sort/2", "expected": jt.Render(wb), "observed": jt.Render(gs)}
		}
		var wk J
		bs, _ = json.Marshal(jt.List(c["keysorted"].([]J), nil))
		_ = json.Unmarshal(bs, &wk)
		if gk := canon("K"); !reflect.DeepEqual(gk, wk) {
			return map[string]J{"status": "mismatch", "input": input + " | ?- " + q, "what": "keysort/2 (stable)", "expected": jt.Render(wk), "observed": jt.Render(gk)}
		}
		wt := wb
		if len(l) == 0 {
			wt = []J{"a", "none"}
		}
		if gt := canon("T"); !reflect.DeepEqual(gt, wt) {
			return map[string]J{"status": "mismatch", "input": input + " | ?- " + q, "what": "setof/3 over member/2", "expected": jt.Render(wt), "observed": jt.Render(gt)}
		}
	}
	return map[string]J{"status": "ok", "input": input}
}
