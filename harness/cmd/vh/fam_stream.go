package main

// Family "stream" (C19): cases are behaviours of Stream.tla: a source text, stream type, eof_action and a sequence of
// input operations with, for each, the result, byte position and end_of_stream the specification allows. The handler
// runs the sequence on a real stream of every applicable kind (file opened by open/4, host-provided reader) and in
// three call contexts (consecutive goals of one conjunction, goals separated by a user-defined predicate, one query
// per operation) and compares every observation.

import (
	"fmt"
	"os"
	"path/filepath"
	"strconv"
	"strings"

	"github.com/ichiban/prolog"
	"github.com/ichiban/prolog/engine"

	"verifharness/internal/jt"
)

func init() {
	register("stream", &family{handle: streamHandle, gen: streamGen})
}

func concChar(c string) string {
	if c == "E" {
		return "é"
	}
	return c
}

type streamStep struct {
	op, res  string
	val      []J
	pos      int
	eos      string
	expected string // the Prolog text of the expected result ("" = not compared)
}

func streamSteps(c map[string]J, typ string) []streamStep {
	var out []streamStep
	for _, x := range c["hist"].([]J) {
		h := x.(map[string]J)
		s := streamStep{op: h["op"].(string), res: h["res"].(string), pos: jt.Int(h["pos"]), eos: h["eos"].(string)}
		s.val, _ = h["val"].([]J)
		switch s.res {
		case "item":
			if typ == "text" {
				s.expected = "chr:" + concChar(s.val[0].(string))
			} else {
				s.expected = "int:" + strconv.Itoa(jt.Int(s.val[0]))
			}
		case "term":
			var sb strings.Builder
			for _, ch := range s.val {
				sb.WriteString(concChar(ch.(string)))
			}
			s.expected = "chr:" + sb.String()
		case "eof":
			if s.op == "get_byte" || s.op == "peek_byte" {
				s.expected = "int:-1"
			} else {
				s.expected = "chr:end_of_file"
			}
		case "perm_type":
			if typ == "binary" {
				s.expected = "perm:binary_stream"
			} else {
				s.expected = "perm:text_stream"
			}
		case "perm_past":
			s.expected = "perm:past_end_of_stream"
		case "perm_either":
			s.expected = "perm:*"
		case "true", "false":
			s.expected = "chr:" + s.res
		case "any":
			s.expected = ""
		}
		out = append(out, s)
	}
	return out
}

func streamGoal(op, alias string, i int) string {
	r := fmt.Sprintf("R%d", i)
	wrap := func(g string) string {
		return fmt.Sprintf("catch(%s, error(permission_error(input, PT%d, _), _), %s = perm(PT%d))", g, i, r, i)
	}
	switch op {
	case "get_char", "peek_char", "get_byte", "peek_byte":
		return wrap(fmt.Sprintf("%s(%s, %s)", op, alias, r))
	case "read":
		return wrap(fmt.Sprintf("read_term(%s, %s, [])", alias, r))
	case "at_end":
		// at_end_of_stream/1 of this implementation does not accept an alias (it raises domain_error(stream, Alias)):
		// the stream term is looked up first. (Noted in DESIGN.md; not part of the cursor semantics.)
		look := fmt.Sprintf("stream_property(A%d, alias(%s))", i, alias)
		if alias == "user_input" {
			look = fmt.Sprintf("current_input(A%d)", i)
		}
		return fmt.Sprintf("%s, (at_end_of_stream(A%d) -> %s = true ; %s = false)", look, i, r, r)
	}
	panic(op)
}

func streamGoalDirect(op, alias string, i int) string {
	r := fmt.Sprintf("R%d", i)
	switch op {
	case "get_char", "peek_char", "get_byte", "peek_byte":
		return fmt.Sprintf("%s(%s, %s)", op, alias, r)
	case "read":
		return fmt.Sprintf("read_term(%s, %s, [])", alias, r)
	}
	return streamGoal(op, alias, i)
}

// obsText renders a result term for comparison.
func obsText(t engine.Term, env *engine.Env) string {
	switch t := env.Resolve(t).(type) {
	case engine.Atom:
		return "chr:" + t.String()
	case engine.Integer:
		return "int:" + strconv.FormatInt(int64(t), 10)
	case engine.Compound:
		if t.Functor().String() == "perm" && t.Arity() == 1 {
			if a, ok := env.Resolve(t.Arg(0)).(engine.Atom); ok {
				return "perm:" + a.String()
			}
		}
	case engine.Variable:
		return "unbound"
	}
	return fmt.Sprintf("other:%v", t)
}

func eosOK(want, got, act string) bool {
	switch want {
	case "not":
		return got == "not"
	case "end?":
		return got == "not" || got == "at"
	case "past":
		return act == "reset" || got == "past"
	}
	return false
}

func streamHandle(c map[string]J) map[string]J {
	typ := c["typ"].(string)
	act := c["act"].(string)
	var text strings.Builder
	for _, ch := range c["src"].([]J) {
		text.WriteString(concChar(ch.(string)))
	}
	steps := streamSteps(c, typ)
	var ops []string
	expectErr := false
	for _, s := range steps {
		ops = append(ops, s.op)
		if strings.HasPrefix(s.expected, "perm:") {
			expectErr = true
		}
	}
	dir := opt("tmp")
	if dir == "" {
		dir = os.TempDir()
	}
	file := filepath.Join(dir, fmt.Sprintf("vh-stream-%d.txt", os.Getpid()))
	if err := os.WriteFile(file, []byte(text.String()), 0o644); err != nil {
		return map[string]J{"status": "badcase", "detail": err.Error()}
	}
	defer os.Remove(file)
	kinds := []string{"file"}
	if act == "reset" {
		kinds = append(kinds, "host")
	}
	desc := fmt.Sprintf("src=%q type=%s eof_action=%s ops=%v", text.String(), typ, act, ops)
	runs := 0
	for _, kind := range kinds {
		for _, ctx := range []string{"direct", "sep", "queries"} {
			if ctx == "direct" && expectErr {
				continue
			}
			runs++
			p := prolog.New(strings.NewReader(""), &strings.Builder{})
			if err := p.Exec("sep."); err != nil {
				return map[string]J{"status": "badcase", "detail": err.Error()}
			}
			alias := "s"
			var setup string
			if kind == "file" {
				setup = fmt.Sprintf("open('%s', read, _, [alias(s), type(%s), eof_action(%s)])", file, typ, act)
			} else {
				alias = "user_input"
				if typ == "text" {
					p.SetUserInput(engine.NewInputTextStream(strings.NewReader(text.String())))
				} else {
					p.SetUserInput(engine.NewInputBinaryStream(strings.NewReader(text.String())))
				}
				setup = "true"
			}
			props := func(i int) string {
				look := fmt.Sprintf("stream_property(S%d, alias(%s))", i, alias)
				if kind == "host" {
					look = fmt.Sprintf("current_input(S%d)", i) // the interpreter's original user_input carries the same alias
				}
				return fmt.Sprintf("%s, stream_property(S%d, position(P%d)), stream_property(S%d, end_of_stream(E%d))", look, i, i, i, i)
			}
			where := fmt.Sprintf("%s kind=%s context=%s", desc, kind, ctx)
			check := func(m map[string]capture, i int, withProps bool) map[string]J {
				s := steps[i]
				cv, ok := m[fmt.Sprintf("R%d", i)]
				got := "missing"
				if ok {
					got = obsText(cv.term, cv.env)
				}
				if s.expected == "perm:*" && strings.HasPrefix(got, "perm:") {
					got = s.expected
				}
				if s.expected != "" && got != s.expected {
					return map[string]J{"status": "mismatch", "input": where, "at": i, "what": "result of " + s.op, "expected": s.expected, "observed": got}
				}
				if withProps {
					pv := m[fmt.Sprintf("P%d", i)]
					ev := m[fmt.Sprintf("E%d", i)]
					gp := obsText(pv.term, pv.env)
					ge := strings.TrimPrefix(obsText(ev.term, ev.env), "chr:")
					if gp != "int:"+strconv.Itoa(s.pos) {
						return map[string]J{"status": "mismatch", "input": where, "at": i, "what": "position after " + s.op, "expected": s.pos, "observed": gp}
					}
					if !eosOK(s.eos, ge, act) {
						return map[string]J{"status": "mismatch", "input": where, "at": i, "what": "end_of_stream after " + s.op, "expected": s.eos, "observed": ge}
					}
				}
				return nil
			}
			switch ctx {
			case "direct", "sep":
				var gs []string
				for i, s := range steps {
					if ctx == "direct" {
						gs = append(gs, streamGoalDirect(s.op, alias, i))
					} else {
						gs = append(gs, streamGoal(s.op, alias, i), "sep", props(i), "sep")
					}
				}
				last := len(steps) - 1
				q := setup + ", " + strings.Join(gs, ", ")
				if ctx == "direct" {
					q += ", " + props(last)
				}
				q += "."
				sols, err := p.Query(q)
				if err != nil {
					return map[string]J{"status": "badcase", "detail": err.Error() + " in " + q}
				}
				if !sols.Next() {
					e := fmt.Sprint(sols.Err())
					sols.Close()
					return map[string]J{"status": "mismatch", "input": where, "what": "the conjunction of operations did not succeed", "expected": "success", "observed": e, "query": q}
				}
				m := map[string]capture{}
				if err := sols.Scan(m); err != nil {
					return map[string]J{"status": "badcase", "detail": err.Error()}
				}
				sols.Close()
				for i := range steps {
					if r := check(m, i, ctx == "sep" || i == last); r != nil {
						r["query"] = q
						return r
					}
				}
			case "queries":
				if kind == "file" {
					if sol := p.QuerySolution(setup + "."); sol.Err() != nil {
						return map[string]J{"status": "badcase", "detail": sol.Err().Error()}
					}
				}
				for i, s := range steps {
					q := streamGoal(s.op, alias, i) + ", " + props(i) + "."
					sols, err := p.Query(q)
					if err != nil {
						return map[string]J{"status": "badcase", "detail": err.Error() + " in " + q}
					}
					if !sols.Next() {
						e := fmt.Sprint(sols.Err())
						sols.Close()
						return map[string]J{"status": "mismatch", "input": where, "at": i, "what": "operation did not succeed", "expected": "success", "observed": e}
					}
					m := map[string]capture{}
					_ = sols.Scan(m)
					sols.Close()
					if r := check(m, i, true); r != nil {
						return r
					}
				}
			}
			if kind == "file" {
				_ = p.QuerySolution("close(s).")
			}
		}
	}
	return map[string]J{"status": "ok", "input": desc, "runs": runs}
}

func streamGen(seed int64, n int, opts map[string]string) []J { return nil }

// Family "streamout" (C19, output side): cases from StreamOut.tla: a sequence of output operations addressed to the
// host-provided user_output or to a file opened by open/4, and the text each sink must hold afterwards.
func init() {
	register("streamout", &family{handle: streamOutHandle})
}

func streamOutHandle(c map[string]J) map[string]J {
	dir := opt("tmp")
	if dir == "" {
		dir = os.TempDir()
	}
	file := filepath.Join(dir, fmt.Sprintf("vh-out-%d.txt", os.Getpid()))
	defer os.Remove(file)
	conc := func(v J) string {
		var sb strings.Builder
		for _, ch := range v.([]J) {
			sb.WriteString(concChar(ch.(string)))
		}
		return sb.String()
	}
	var goals, desc []string
	for _, x := range c["hist"].([]J) {
		h := x.(map[string]J)
		s := "user_output"
		if h["sink"] == "file" {
			s = "f"
		}
		var g string
		switch h["op"] {
		case "put_char":
			g = fmt.Sprintf("put_char(%s, '%s')", s, conc(h["text"]))
		case "nl":
			g = fmt.Sprintf("nl(%s)", s)
		case "write":
			g = fmt.Sprintf("write(%s, %s)", s, conc(h["text"]))
		case "writeq":
			g = fmt.Sprintf("writeq(%s, 'A b')", s)
		case "print_list":
			g = fmt.Sprintf("write(%s, [a,b])", s)
		}
		goals = append(goals, g)
		desc = append(desc, g)
	}
	wantUser, wantFile := conc(c["user"]), conc(c["file"])
	for _, ctx := range []string{"conjunction", "queries"} {
		_ = os.Remove(file)
		var out strings.Builder
		p := prolog.New(strings.NewReader(""), &out)
		input := strings.Join(desc, ", ") + " (" + ctx + ")"
		if sol := p.QuerySolution(fmt.Sprintf("open('%s', write, _, [alias(f)]).", file)); sol.Err() != nil {
			return map[string]J{"status": "badcase", "detail": sol.Err().Error()}
		}
		if ctx == "conjunction" {
			if sol := p.QuerySolution(strings.Join(append(goals, "true"), ", ") + "."); sol.Err() != nil {
				return map[string]J{"status": "mismatch", "input": input, "what": "the output goals did not succeed", "expected": "success", "observed": sol.Err().Error()}
			}
		} else {
			for _, g := range goals {
				if sol := p.QuerySolution(g + "."); sol.Err() != nil {
					return map[string]J{"status": "mismatch", "input": input, "what": "output goal " + g, "expected": "success", "observed": sol.Err().Error()}
				}
			}
		}
		if sol := p.QuerySolution("close(f)."); sol.Err() != nil {
			return map[string]J{"status": "mismatch", "input": input, "what": "close/1 of the file stream", "expected": "success", "observed": sol.Err().Error()}
		}
		if got := out.String(); got != wantUser {
			return map[string]J{"status": "mismatch", "input": input, "what": "text that reached user_output", "expected": wantUser, "observed": got}
		}
		b, _ := os.ReadFile(file)
		if string(b) != wantFile {
			return map[string]J{"status": "mismatch", "input": input, "what": "text that reached the file", "expected": wantFile, "observed": string(b)}
		}
	}
	return map[string]J{"status": "ok", "input": strings.Join(desc, ", ")}
}
