package main

// Family "bridge" (C15): cases from Bridge.tla. kind "value": a Go value (string over character classes, number,
// nested slices) and the term it must denote as a '?' argument under a double_quotes setting; the handler passes the
// value through the placeholder, compares the resulting term STRUCTURALLY with the specification's (no text involved),
// checks `X = ?, Y = <literal>, X == Y` with the literal written by the harness's own escaper, scans the answer back into
// the original Go type and checks argument-count mismatches. kind "scanint": an integer answer scanned into a signed
// destination of w bits: the exact value when it fits, an error otherwise.

import (
	"fmt"
	"math/big"
	"reflect"
	"strconv"
	"strings"

	"github.com/ichiban/prolog"
	"github.com/ichiban/prolog/engine"

	"verifharness/internal/jt"
)

func init() {
	register("bridge", &family{handle: bridgeHandle})
}

func goValue(v []J) interface{} {
	switch v[0].(string) {
	case "int":
		return jt.Int(v[1])
	case "float":
		return v[1].(float64) / 2
	case "str":
		var rs []rune
		for _, c := range v[1].([]J) {
			rs = append(rs, rune(jt.Int(c)))
		}
		return string(rs)
	case "list":
		elems := v[1].([]J)
		leaf, depth := leafKind(v)
		var t reflect.Type
		switch leaf {
		case "str":
			t = reflect.TypeOf("")
		case "float":
			t = reflect.TypeOf(float64(0))
		default:
			t = reflect.TypeOf(int(0))
		}
		for i := 0; i < depth; i++ {
			t = reflect.SliceOf(t)
		}
		s := reflect.MakeSlice(t, 0, len(elems))
		for _, e := range elems {
			ev := goValue(e.([]J))
			rv := reflect.ValueOf(ev)
			if rv.Type() != t.Elem() {
				// an empty inner list got the default element type: rebuild with the right one
				rv = reflect.MakeSlice(t.Elem(), 0, 0)
			}
			s = reflect.Append(s, rv)
		}
		return s.Interface()
	}
	panic("bad value")
}

// leafKind: the kind of the first leaf and the nesting depth of a list value.
func leafKind(v []J) (string, int) {
	if v[0] != "list" {
		return v[0].(string), 0
	}
	best, depth := "int", 1
	for _, e := range v[1].([]J) {
		k, d := leafKind(e.([]J))
		if d+1 > depth || (k != "int" && best == "int") {
			best, depth = k, d+1
		}
	}
	return best, depth
}

// matchTerm compares an engine term with a term of Bridge.tla.
func matchTerm(t engine.Term, env *engine.Env, want []J) string {
	t = env.Resolve(t)
	switch want[0].(string) {
	case "int":
		if i, ok := t.(engine.Integer); !ok || int(i) != jt.Int(want[1]) {
			return fmt.Sprintf("expected the integer %d, got %v (%T)", jt.Int(want[1]), t, t)
		}
	case "float":
		if f, ok := t.(engine.Float); !ok || float64(f) != want[1].(float64)/2 {
			return fmt.Sprintf("expected the float %v, got %v (%T)", want[1].(float64)/2, t, t)
		}
	case "ch", "at":
		a, ok := t.(engine.Atom)
		if !ok {
			return fmt.Sprintf("expected an atom, got %v (%T)", t, t)
		}
		var codes []J
		if want[0] == "ch" {
			codes = []J{want[1]}
		} else {
			codes = want[1].([]J)
		}
		rs := []rune(a.String())
		if len(rs) != len(codes) {
			return fmt.Sprintf("expected an atom of %d characters, got %q", len(codes), a.String())
		}
		for i, c := range codes {
			if int(rs[i]) != jt.Int(c) {
				return fmt.Sprintf("character %d of the atom: expected code %d, got %d", i, jt.Int(c), rs[i])
			}
		}
	case "list":
		elems := want[1].([]J)
		iter := engine.ListIterator{List: t, Env: env}
		i := 0
		for iter.Next() {
			if i >= len(elems) {
				return fmt.Sprintf("list longer than the expected %d elements", len(elems))
			}
			if m := matchTerm(iter.Current(), env, elems[i].([]J)); m != "" {
				return fmt.Sprintf("element %d: %s", i, m)
			}
			i++
		}
		if err := iter.Err(); err != nil {
			return "not a proper list: " + err.Error()
		}
		if i != len(elems) {
			return fmt.Sprintf("list of %d elements, expected %d", i, len(elems))
		}
	}
	return ""
}

// literal writes a Go value as Prolog text (the harness's own escaper: trusted).
func literal(v interface{}) string {
	rv := reflect.ValueOf(v)
	switch rv.Kind() {
	case reflect.String:
		var sb strings.Builder
		sb.WriteString("(\"")
		for _, r := range rv.String() {
			switch r {
			case '"':
				sb.WriteString("\\\"")
			case '\\':
				sb.WriteString("\\\\")
			case '\n':
				sb.WriteString("\\n")
			case 0:
				sb.WriteString("\\x0\\")
			default:
				sb.WriteRune(r)
			}
		}
		sb.WriteString("\")")
		return sb.String()
	case reflect.Int:
		return fmt.Sprintf("(%d)", rv.Int())
	case reflect.Float64:
		s := fmt.Sprintf("%v", rv.Float())
		if !strings.ContainsAny(s, ".e") {
			s += ".0"
		}
		return "(" + s + ")"
	case reflect.Slice:
		var es []string
		for i := 0; i < rv.Len(); i++ {
			es = append(es, literal(rv.Index(i).Interface()))
		}
		return "[" + strings.Join(es, ",") + "]"
	}
	panic("literal")
}

func hasQuestionMark(v interface{}) bool {
	rv := reflect.ValueOf(v)
	switch rv.Kind() {
	case reflect.String:
		return rv.String() == "?"
	case reflect.Slice:
		for i := 0; i < rv.Len(); i++ {
			if hasQuestionMark(rv.Index(i).Interface()) {
				return true
			}
		}
	}
	return false
}

func bridgeHandle(c map[string]J) map[string]J {
	if c["kind"] == "scanint" {
		return bridgeScanInt(c)
	}
	if c["kind"] == "scanfloat" {
		return bridgeScanFloat(c)
	}
	if c["kind"] == "scanstr" {
		return bridgeScanStr(c)
	}
	if c["kind"] == "count" {
		return bridgeCount(c)
	}
	dq := c["dq"].(string)
	v := goValue(c["val"].([]J))
	input := fmt.Sprintf("double_quotes=%s value=%#v", dq, v)
	p := prolog.New(nil, nil)
	if sol := p.QuerySolution(fmt.Sprintf("set_prolog_flag(double_quotes, %s).", dq)); sol.Err() != nil {
		return map[string]J{"status": "badcase", "detail": sol.Err().Error()}
	}
	// the placeholder denotes the specification's term
	sols, err := p.Query("X = ? .", v)
	if err != nil {
		return map[string]J{"status": "mismatch", "input": input, "what": "Query with a '?' argument", "expected": "an answer", "observed": err.Error()}
	}
	if !sols.Next() {
		e := fmt.Sprint(sols.Err())
		sols.Close()
		return map[string]J{"status": "mismatch", "input": input, "what": "X = ? did not succeed", "expected": "an answer", "observed": e}
	}
	var cap struct{ X capture }
	_ = sols.Scan(&cap)
	if m := matchTerm(cap.X.term, cap.X.env, c["term"].([]J)); m != "" {
		sols.Close()
		return map[string]J{"status": "mismatch", "input": input, "what": "the term the placeholder denotes", "expected": c["term"], "observed": m}
	}
	// Scan back into the original Go type: exact or error
	back := reflect.New(reflect.TypeOf(v))
	if isScanType(v) && !(dq != "atom" && hasEmptyString(v)) {
		dest := map[string]interface{}{}
		_ = dest
		holder := reflect.New(reflect.StructOf([]reflect.StructField{{Name: "X", Type: reflect.TypeOf(v)}}))
		if err := sols.Scan(holder.Interface()); err == nil {
			back.Elem().Set(holder.Elem().Field(0))
			if !reflect.DeepEqual(normEmpty(back.Elem().Interface()), normEmpty(v)) {
				sols.Close()
				return map[string]J{"status": "mismatch", "input": input, "what": "Scan back into the original Go type (exact or error)", "expected": fmt.Sprintf("%#v", v), "observed": fmt.Sprintf("%#v", back.Elem().Interface())}
			}
		}
	}
	sols.Close()
	// placeholder = literal (not for the text "?": any atom equal to the placeholder is a placeholder for the parser)
	if !(dq == "atom" && hasQuestionMark(v)) {
		q := fmt.Sprintf("X = ?, Y = %s, X == Y.", literal(v))
		s2, err := p.Query(q, v)
		if err != nil {
			return map[string]J{"status": "mismatch", "input": input + " ?- " + q, "what": "the literal could not be read", "expected": "ok", "observed": err.Error()}
		}
		ok := s2.Next()
		e := s2.Err()
		s2.Close()
		if !ok {
			return map[string]J{"status": "mismatch", "input": input + " ?- " + q, "what": "placeholder and literal denote different terms", "expected": "X == Y", "observed": fmt.Sprint("false ", e)}
		}
	}
	// a count mismatch between placeholders and arguments is an error
	if _, err := p.Query("X = ?, Y = ? .", v); err == nil {
		// some implementations report it at Next
		return map[string]J{"status": "mismatch", "input": input, "what": "two placeholders, one argument", "expected": "an error", "observed": "accepted"}
	}
	if s3, err := p.Query("X = ? .", v, v); err == nil {
		ok := s3.Next()
		e := s3.Err()
		s3.Close()
		if ok || e == nil {
			return map[string]J{"status": "mismatch", "input": input, "what": "one placeholder, two arguments", "expected": "an error", "observed": "accepted"}
		}
	}
	return map[string]J{"status": "ok", "input": input}
}

// isScanType: scanning back is compared unless the value contains an empty string that became the atom '[]' (under
// double_quotes codes/chars the empty text IS the empty list; its name as a Go string is "[]", which is the value of the
// answer, not an alteration).
func isScanType(v interface{}) bool { return true }

func hasEmptyString(v interface{}) bool {
	rv := reflect.ValueOf(v)
	switch rv.Kind() {
	case reflect.String:
		return rv.String() == ""
	case reflect.Slice:
		for i := 0; i < rv.Len(); i++ {
			if hasEmptyString(rv.Index(i).Interface()) {
				return true
			}
		}
	}
	return false
}

// normEmpty maps empty slices and nil slices to the same thing.
func normEmpty(v interface{}) interface{} {
	rv := reflect.ValueOf(v)
	if rv.Kind() == reflect.Slice {
		out := make([]interface{}, rv.Len())
		for i := range out {
			out[i] = normEmpty(rv.Index(i).Interface())
		}
		return out
	}
	return v
}

// bridgeScanFloat: an integer answer scanned into a float destination (also as a slice element and a map value): the value
// stored must be exactly the integer, or Scan must return an error.
func bridgeScanFloat(c map[string]J) map[string]J {
	v := bigOf(c["v"])
	p := jt.Int(c["w"])
	fits := c["fits"].(bool)
	if !v.IsInt64() {
		return map[string]J{"status": "discard", "why": "the answer itself is not a 64-bit integer"}
	}
	input := fmt.Sprintf("Scan of the integer %s into a float with a %d-bit significand", v.String(), p)
	ip := prolog.New(nil, nil)
	sols, err := ip.Query(fmt.Sprintf("X is %s, L = [X].", v.String()))
	if err != nil {
		return map[string]J{"status": "badcase", "detail": err.Error()}
	}
	defer sols.Close()
	if !sols.Next() {
		return map[string]J{"status": "badcase", "detail": fmt.Sprint(sols.Err())}
	}
	exact := func(f float64) bool {
		bf := new(big.Float).SetFloat64(f)
		bi, acc := bf.Int(nil)
		return acc == big.Exact && bi.Cmp(v) == 0
	}
	check := func(how string, serr error, got float64) map[string]J {
		if serr != nil {
			return nil // an error is always allowed
		}
		if !fits || !exact(got) {
			return map[string]J{"status": "mismatch", "input": input + " (" + how + ")", "what": "Scan stored a value that is not the answer (an integer the destination cannot hold must be an error)",
				"expected": v.String() + " or an error", "observed": strconv.FormatFloat(got, 'f', -1, 64)}
		}
		return nil
	}
	if p == 53 {
		var d struct{ X float64 }
		if r := check("struct field float64", sols.Scan(&d), d.X); r != nil {
			return r
		}
		var l struct{ L []float64 }
		if err := sols.Scan(&l); err == nil && len(l.L) == 1 {
			if r := check("[]float64 element", nil, l.L[0]); r != nil {
				return r
			}
		}
		m := map[string]float64{}
		if err := sols.Scan(m); err == nil {
			if r := check("map[string]float64 value", nil, m["X"]); r != nil {
				return r
			}
		}
	} else {
		var d struct{ X float32 }
		if r := check("struct field float32", sols.Scan(&d), float64(d.X)); r != nil {
			return r
		}
		var l struct{ L []float32 }
		if err := sols.Scan(&l); err == nil && len(l.L) == 1 {
			if r := check("[]float32 element", nil, float64(l.L[0])); r != nil {
				return r
			}
		}
	}
	return map[string]J{"status": "ok", "input": input}
}

// bridgeScanStr: a list of integers (written as a list, and built at run time) scanned into string destinations: the text whose
// code points they are, or an error.
func bridgeScanStr(c map[string]J) map[string]J {
	var parts []string
	var want []rune
	for _, x := range c["codes"].([]J) {
		v := bigOf(x)
		parts = append(parts, v.String())
		if v.IsInt64() {
			want = append(want, rune(v.Int64()))
		}
	}
	valid := c["valid"].(bool)
	list := "[" + strings.Join(parts, ",") + "]"
	input := fmt.Sprintf("double_quotes=%s Scan of the list %s into a string", c["dq"], list)
	ip := prolog.New(nil, nil)
	if sol := ip.QuerySolution(fmt.Sprintf("set_prolog_flag(double_quotes, %s).", c["dq"])); sol.Err() != nil {
		return map[string]J{"status": "badcase", "detail": sol.Err().Error()}
	}
	for _, q := range []string{fmt.Sprintf("X = %s, L = [X].", list), fmt.Sprintf("append(%s, [], X), L = [X].", list)} {
		sols, err := ip.Query(q)
		if err != nil {
			return map[string]J{"status": "discard", "why": "an element is not a 64-bit integer", "input": input}
		}
		if !sols.Next() {
			sols.Close()
			return map[string]J{"status": "badcase", "detail": fmt.Sprint(sols.Err())}
		}
		check := func(how string, serr error, got string) map[string]J {
			if serr != nil {
				return nil
			}
			if !valid || got != string(want) {
				return map[string]J{"status": "mismatch", "input": input + " (" + how + ", ?- " + q + ")", "what": "Scan stored a text that is not the answer (a list with an element that is no Unicode scalar value must be an error)",
					"expected": fmt.Sprintf("%q or an error", string(want)), "observed": fmt.Sprintf("%q", got)}
			}
			return nil
		}
		var d struct{ X string }
		r := check("struct field string", sols.Scan(&d), d.X)
		if r == nil {
			var l struct{ L []string }
			if err := sols.Scan(&l); err == nil && len(l.L) == 1 {
				r = check("[]string element", nil, l.L[0])
			}
		}
		if r == nil {
			m := map[string]string{}
			if err := sols.Scan(m); err == nil {
				r = check("map[string]string value", nil, m["X"])
			}
		}
		sols.Close()
		if r != nil {
			return r
		}
	}
	return map[string]J{"status": "ok", "input": input}
}

func bridgeScanInt(c map[string]J) map[string]J {
	v := bigOf(c["v"])
	w := jt.Int(c["w"])
	fits := c["fits"].(bool)
	if !v.IsInt64() {
		return map[string]J{"status": "discard", "why": "the answer itself is not a 64-bit integer"}
	}
	input := fmt.Sprintf("Scan of the integer %s into int%d", v.String(), w)
	p := prolog.New(nil, nil)
	sols, err := p.Query(fmt.Sprintf("X is %s.", v.String()))
	if err != nil {
		return map[string]J{"status": "badcase", "detail": err.Error()}
	}
	defer sols.Close()
	if !sols.Next() {
		return map[string]J{"status": "badcase", "detail": fmt.Sprint(sols.Err())}
	}
	var got int64
	var serr error
	switch w {
	case 8:
		var d struct{ X int8 }
		serr = sols.Scan(&d)
		got = int64(d.X)
	case 16:
		var d struct{ X int16 }
		serr = sols.Scan(&d)
		got = int64(d.X)
	case 32:
		var d struct{ X int32 }
		serr = sols.Scan(&d)
		got = int64(d.X)
	case 64:
		var d struct{ X int64 }
		serr = sols.Scan(&d)
		got = d.X
		var d2 struct{ X int }
		if e2 := sols.Scan(&d2); e2 == nil && int64(d2.X) != v.Int64() {
			return map[string]J{"status": "mismatch", "input": input + " (int)", "what": "value stored by Scan", "expected": v.String(), "observed": d2.X}
		}
	}
	if serr != nil {
		return map[string]J{"status": "ok", "input": input, "note": "error"} // an error is always allowed
	}
	if !fits {
		return map[string]J{"status": "mismatch", "input": input, "what": "the value does not fit the destination: Scan must return an error, never a wrapped value", "expected": "error", "observed": got}
	}
	if got != v.Int64() {
		return map[string]J{"status": "mismatch", "input": input, "what": "value stored by Scan", "expected": v.String(), "observed": got}
	}
	return map[string]J{"status": "ok", "input": input}
}

// bridgeCount: np placeholders in the first term, na arguments, a trailer after the end token; through Query, QuerySolution and Exec.
func bridgeCount(c map[string]J) map[string]J {
	np, na := jt.Int(c["np"]), jt.Int(c["na"])
	entry, _ := c["entry"].(string)
	ph := []string{"[]", "[?]", "[?, ?]"}[np]
	trailer := map[string]string{"none": "", "layout": " \n", "comment": " % and so on\n", "clause": " cnt_more.", "clause1": " cnt_more(?).", "clause2": "\ncnt_more(?, ?).",
		"line": "\ntrue.\n", "broken": " cnt_more(."}[c["trailer"].(string)]
	args := make([]interface{}, na)
	for i := range args {
		args[i] = i + 1
	}
	p := prolog.New(nil, nil)
	var text string
	var err error
	switch entry {
	case "query":
		text = "L = " + ph + "." + trailer
		var sols *prolog.Solutions
		if sols, err = p.Query(text, args...); err == nil {
			if !sols.Next() {
				if err = sols.Err(); err == nil {
					err = fmt.Errorf("no answer")
				}
			}
			sols.Close()
		}
	case "solution":
		text = "L = " + ph + "." + trailer
		err = p.QuerySolution(text, args...).Err()
	default:
		text = "cnt_first(" + ph + ")." + trailer
		err = p.Exec(text, args...)
	}
	input := fmt.Sprintf("%s(%q, %d argument(s))", entry, text, na)
	obs := "ok"
	if err != nil {
		obs = "error"
	}
	want, _ := c["verdict"].(string)
	if want == "open" {
		return map[string]J{"status": "discard", "why": "placeholders spread over several clauses", "input": input}
	}
	if obs != want {
		return map[string]J{"status": "mismatch", "input": input, "what": "count of placeholders and arguments", "expected": want, "observed": fmt.Sprintf("%s (%v)", obs, err)}
	}
	return map[string]J{"status": "ok", "input": input}
}
