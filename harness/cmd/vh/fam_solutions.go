package main

// Family "solutions" (C12): cases are behaviours of Solutions.tla: for NI Solutions of one interpreter a sequence of
// Next/Scan/Err/Close calls with the return value the contract fixes and the number of answers the search may have
// produced so far. Every call runs under a watchdog (a blocked call is a violation), the goals write one character per
// answer so that the output shows how far each search has run, and the goroutine count is compared before and after.

import (
	"fmt"
	"runtime"
	"strconv"
	"strings"
	"sync"
	"time"

	"github.com/ichiban/prolog"

	"verifharness/internal/jt"
)

func init() {
	register("solutions", &family{handle: solutionsHandle})
}

func solutionsQuery(kind map[string]J, sym string) string {
	n := jt.Int(kind["n"])
	switch kind["then"].(string) {
	case "end":
		return fmt.Sprintf("between(1, %d, X), write(%s).", n, sym)
	case "error":
		return fmt.Sprintf("(between(1, %d, X), write(%s) ; throw(oops)).", n, sym)
	case "bare":
		return "!."
	case "anon":
		return fmt.Sprintf("between(1, %d, _), write(%s).", n, sym)
	default:
		return fmt.Sprintf("length(_, N), X is N + 1, write(%s).", sym)
	}
}

func solutionsHandle(c map[string]J) map[string]J {
	kinds := c["kind"].([]J)
	var out strings.Builder
	p := prolog.New(strings.NewReader(""), &out)
	runtime.GC()
	g0 := runtime.NumGoroutine()
	syms := []string{"a", "b", "c"}
	var sols []*prolog.Solutions
	var desc []string
	for i, k := range kinds {
		q := solutionsQuery(k.(map[string]J), syms[i])
		s, err := p.Query(q)
		if err != nil {
			return map[string]J{"status": "badcase", "detail": err.Error()}
		}
		sols = append(sols, s)
		desc = append(desc, fmt.Sprintf("S%d := Query(%q)", i+1, q))
	}
	ran := make([]int, len(kinds))
	bare := func(i int) bool { return kinds[i].(map[string]J)["then"] == "bare" }
	count := func(i int) int {
		if bare(i) {
			return ran[i] // (a bare query writes nothing: its progress is not observed)
		}
		return strings.Count(out.String(), syms[i])
	}
	fail := func(what string, exp, obs J) map[string]J {
		// unblock whatever can be unblocked; the worker process is abandoned by the pool if it cannot
		return map[string]J{"status": "mismatch", "input": strings.Join(desc, "; "), "what": what, "expected": exp, "observed": obs}
	}
	hist := c["hist"].([]J)
	for _, x := range hist {
		h := x.(map[string]J)
		i := jt.Int(h["it"]) - 1
		op := h["op"].(string)
		s := sols[i]
		desc = append(desc, fmt.Sprintf("S%d.%s()", i+1, op))
		ch := make(chan string, 1)
		go func() {
			defer func() {
				if r := recover(); r != nil {
					ch <- fmt.Sprint("panic: ", r)
				}
			}()
			switch op {
			case "Next":
				ch <- strconv.FormatBool(s.Next())
			case "Scan":
				var r struct{ X int }
				if err := s.Scan(&r); err != nil {
					ch <- "scanerr:" + err.Error()
				} else {
					ch <- strconv.Itoa(r.X)
				}
			case "Err":
				if err := s.Err(); err != nil {
					if strings.Contains(err.Error(), "oops") {
						ch <- "error"
					} else {
						ch <- "other error: " + err.Error()
					}
				} else {
					ch <- "nil"
				}
			case "Close":
				if err := s.Close(); err == prolog.ErrClosed {
					ch <- "ErrClosed"
				} else if err != nil {
					ch <- "other error: " + err.Error()
				} else {
					ch <- "nil"
				}
			}
		}()
		var got string
		select {
		case got = <-ch:
		case <-time.After(wd(2 * time.Second)):
			return fail("the call did not return within 2s (blocked)", h["ret"], "blocked")
		}
		want := h["ret"].(string)
		if op == "Scan" && (bare(i) || kinds[i].(map[string]J)["then"] == "anon") && !strings.HasPrefix(got, "panic") {
			got = want // (there is no X to scan)
		}
		if strings.HasPrefix(got, "panic") || (want != "any" && got != want) {
			return fail("return value of "+op, want, got)
		}
		ran[i] = jt.Int(h["ran"])
		for j := range kinds {
			if n := count(j); n != ran[j] {
				return fail(fmt.Sprintf("number of answers the search of S%d has produced (goals run)", j+1), ran[j], n)
			}
		}
	}
	// nothing runs behind the consumer's back
	time.Sleep(3 * time.Millisecond)
	for j := range kinds {
		if n := count(j); n != ran[j] {
			return fail(fmt.Sprintf("S%d kept running after the last call", j+1), ran[j], n)
		}
	}
	for _, s := range sols {
		_ = s.Close()
	}
	deadline := time.Now().Add(wd(time.Second))
	for runtime.NumGoroutine() > g0 && time.Now().Before(deadline) {
		time.Sleep(200 * time.Microsecond)
	}
	if g := runtime.NumGoroutine(); g > g0 {
		return fail("goroutines after closing every Solutions", g0, g)
	}
	for j := range kinds {
		if n := count(j); n != ran[j] {
			return fail(fmt.Sprintf("S%d ran goals after Close", j+1), ran[j], n)
		}
	}
	return map[string]J{"status": "ok", "input": strings.Join(desc, "; ")}
}

// Family "soltrace" (C12, schedules): the same cases as "solutions", but what is returned is the merged log of the
// steps the hooks in Next, Close and the search goroutine report, in the order of a global sequence number. TLC
// validates it against SolutionsTrace.tla.
func init() {
	register("soltrace", &family{handle: soltraceHandle})
}

func soltraceHandle(c map[string]J) map[string]J {
	kinds := c["kind"].([]J)
	if len(kinds) != 1 {
		return map[string]J{"status": "discard", "why": "one Solutions per schedule trace"}
	}
	var out strings.Builder
	p := prolog.New(strings.NewReader(""), &out)
	var mu sync.Mutex
	var events []map[string]J
	var target *prolog.Solutions
	prolog.VerifSolEvent = func(s *prolog.Solutions, ev string) {
		mu.Lock()
		defer mu.Unlock()
		if target != nil && s != target {
			return
		}
		if ev == "next_end" {
			ev = "next_end:?" // patched with the value once the call has returned to the harness
		}
		events = append(events, map[string]J{"ev": ev})
	}
	defer func() { prolog.VerifSolEvent = nil }()
	q := solutionsQuery(kinds[0].(map[string]J), "a")
	sols, err := p.Query(q)
	if err != nil {
		return map[string]J{"status": "badcase", "detail": err.Error()}
	}
	mu.Lock()
	target = sols
	mu.Unlock()
	var desc []string
	for _, x := range c["hist"].([]J) {
		h := x.(map[string]J)
		op := h["op"].(string)
		desc = append(desc, op)
		ch := make(chan struct{})
		go func() {
			defer close(ch)
			switch op {
			case "Next":
				// the return value is known to the hook only through this variable: Next's deferred hook fires after the
				// value was computed, so it is set from a wrapper around the call
				ret := sols.Next()
				mu.Lock()
				for i := len(events) - 1; i >= 0; i-- {
					if events[i]["ev"] == "next_end:?" {
						events[i]["ev"] = "next_end:" + strconv.FormatBool(ret)
						break
					}
				}
				mu.Unlock()
			case "Close":
				_ = sols.Close()
			case "Scan":
				var r struct{ X int }
				_ = sols.Scan(&r)
			case "Err":
				_ = sols.Err()
			}
		}()
		select {
		case <-ch:
		case <-time.After(wd(2 * time.Second)):
			return map[string]J{"status": "mismatch", "input": q + " " + strings.Join(desc, " "), "what": "the call did not return within 2s", "expected": "returns", "observed": "blocked", "fatal": true}
		}
	}
	_ = sols.Close()
	deadline := time.Now().Add(wd(time.Second))
	for time.Now().Before(deadline) {
		mu.Lock()
		n := len(events)
		last := ""
		if n > 0 {
			last, _ = events[n-1]["ev"].(string)
		}
		seen := false
		for _, e := range events {
			if e["ev"] == "g_exit" {
				seen = true
			}
		}
		mu.Unlock()
		_ = last
		if seen {
			break
		}
		time.Sleep(200 * time.Microsecond)
	}
	time.Sleep(200 * time.Microsecond)
	mu.Lock()
	evs := append([]map[string]J{}, events...)
	mu.Unlock()
	// the return value of each Next: patch "next_end:?" with the value observed by the caller, in order
	return map[string]J{"status": "recorded", "events": evs, "input": q + " " + strings.Join(desc, " ")}
}
