package main

// Family "arith" (C07): cases are evaluations from Arith.tla: an integer functor applied to boundary values with the
// exact outcome (value, int_overflow, zero_divisor, truth value of a comparison, or "open"). Family "arithf": float
// cases whose IEEE-754 result the harness computed with Go's own float64 operation (trusted base) and which
// ArithF.tla classified (value / float_overflow / undefined / underflow / zero_divisor; exact float-to-integer results).

import (
	"fmt"
	"math"
	"math/big"
	"math/rand"
	"strconv"
	"strings"

	"github.com/ichiban/prolog"
	"github.com/ichiban/prolog/engine"

	"verifharness/internal/jt"
)

func init() {
	register("arith", &family{handle: arithHandle})
}

func bigOf(v J) *big.Int {
	m := v.(map[string]J)
	r := new(big.Int)
	base := big.NewInt(10000)
	mag := m["mag"].([]J)
	for i := len(mag) - 1; i >= 0; i-- {
		r.Mul(r, base)
		r.Add(r, big.NewInt(int64(jt.Int(mag[i]))))
	}
	if neg, _ := m["neg"].(bool); neg {
		r.Neg(r)
	}
	return r
}

func arithQuery(p *prolog.Interpreter, q string) (string, error) {
	sols, err := p.Query(q)
	if err != nil {
		return "", err
	}
	defer sols.Close()
	if !sols.Next() {
		if e := sols.Err(); e != nil {
			if ex, ok := e.(engine.Exception); ok {
				return "error: " + fmt.Sprint(jt.Render(jt.NewCanon(nil).Term(ex.Term()))), nil
			}
			return "goerror: " + e.Error(), nil
		}
		return "false", nil
	}
	m := map[string]prolog.TermString{}
	if err := sols.Scan(m); err != nil {
		return "", err
	}
	if v, ok := m["X"]; ok {
		return "value: " + string(v), nil
	}
	return "true", nil
}

func arithHandle(c map[string]J) map[string]J {
	op := c["op"].(string)
	x, y := bigOf(c["x"]), bigOf(c["y"])
	par := func(b *big.Int) string { return "(" + b.String() + ")" }
	var q string
	out := c["out"].(map[string]J)
	switch c["fam"].(string) {
	case "u":
		q = fmt.Sprintf("X is %s(%s).", map[string]string{"-": "-", "+": "+", "abs": "abs", "sign": "sign", "\\": "\\"}[op], x.String())
	case "c":
		q = fmt.Sprintf("%s %s %s.", par(x), op, par(y))
	default:
		switch op {
		case "min", "max", "xor":
			q = fmt.Sprintf("X is %s(%s, %s).", op, x.String(), y.String())
		default:
			q = fmt.Sprintf("X is %s %s %s.", par(x), op, par(y))
		}
	}
	// the same evaluation with the operands, and with the whole expression, reached through variables bound by earlier goals
	qs := []string{q}
	switch c["fam"].(string) {
	case "u":
		qs = append(qs, fmt.Sprintf("A = %s, %s", x.String(), strings.Replace(q, "("+x.String()+").", "(A).", 1)))
	case "c":
		qs = append(qs, fmt.Sprintf("A = %s, B = %s, A %s B.", x.String(), y.String(), op))
	default:
		e := strings.TrimSuffix(strings.TrimPrefix(q, "X is "), ".")
		qs = append(qs, fmt.Sprintf("E = (%s), X is E.", e))
		switch op {
		case "min", "max", "xor":
			qs = append(qs, fmt.Sprintf("A = %s, B = %s, X is %s(A, B).", x.String(), y.String(), op))
		default:
			qs = append(qs, fmt.Sprintf("A = %s, B = %s, X is A %s B.", x.String(), y.String(), op))
		}
	}
	p := prolog.New(nil, nil)
	var want string
	if out["kind"] == "open" {
		return map[string]J{"status": "discard", "why": "left open by the statement (overflowing / out-of-range shift, negative exponent)", "input": "?- " + q}
	}
	for _, qi := range qs[1:] {
		got, err := arithQuery(p, qi)
		if err != nil {
			return map[string]J{"status": "mismatch", "input": "?- " + qi, "what": "query did not run", "expected": out, "observed": err.Error()}
		}
		ref, _ := arithQuery(p, q)
		if got != ref {
			return map[string]J{"status": "mismatch", "input": "?- " + qi, "what": "result of the evaluation differs from the one with the operands written in the expression", "expected": ref, "observed": got,
				"sig": fmt.Sprintf("C07:int:%s:indirect", op)}
		}
	}
	got, err := arithQuery(p, q)
	if err != nil {
		return map[string]J{"status": "mismatch", "input": "?- " + q, "what": "query did not run", "expected": out, "observed": err.Error()}
	}
	switch out["kind"] {
	case "int":
		want = "value: " + bigOf(out["v"]).String()
	case "err":
		want = "error: error(evaluation_error(" + out["e"].(string) + "),'$ctx')"
	case "bool":
		want = fmt.Sprint(out["v"])
	case "open":
		return map[string]J{"status": "discard", "why": "left open by the statement (overflowing / out-of-range shift, negative exponent)", "input": "?- " + q}
	}
	if strings.ReplaceAll(got, " ", "") != strings.ReplaceAll(want, " ", "") {
		return map[string]J{"status": "mismatch", "input": "?- " + q, "what": "result of the evaluation", "expected": want, "observed": got,
			"sig": fmt.Sprintf("C07:int:%s", op)}
	}
	return map[string]J{"status": "ok", "input": "?- " + q}
}

// ----------------------------------------------------------------------------------------------
// floats

func init() {
	register("arithf", &family{handle: arithfHandle, gen: arithfGen})
}

var floatGrid = []float64{0, math.Copysign(0, -1), 5e-324, -5e-324, 2.2250738585072014e-308, -2.2250738585072014e-308, 1, -1, 0.5, -0.5, 1.5, -1.5, 2.5, -2.5, 3, -3, 0.1,
	9007199254740992, -9007199254740992, 9223372036854775808, -9223372036854775808, 9223372036854774784, -9223372036854774784, 9223372036854777856,
	math.MaxFloat64, -math.MaxFloat64, 1e308, -1e308, 1e-308, 4611686018427387904.5, 0.49999999999999994, -0.49999999999999994, 4503599627370497.5, -4503599627370497.5, 4503599627370497.0, -4503599627370499.0, 9007199254740991.0, -9007199254740991.0, 4503599627370495.5, 1e19, -1e19, 123456.789}

func fclass(f float64) string {
	switch {
	case math.IsInf(f, 0):
		return "inf"
	case math.IsNaN(f):
		return "nan"
	case f == 0:
		return "zero"
	}
	return "finite"
}

func limbsOf(b *big.Int) []J {
	out := []J{}
	x := new(big.Int).Set(b)
	base := big.NewInt(10000)
	for x.Sign() > 0 {
		m := new(big.Int)
		x.DivMod(x, base, m)
		out = append(out, float64(m.Int64()))
	}
	return out
}

func fRender(f float64) string {
	s := strconv.FormatFloat(f, 'e', -1, 64)
	if !strings.Contains(s, ".") {
		s = strings.Replace(s, "e", ".0e", 1)
	}
	if math.Signbit(f) {
		return "(" + s + ")"
	}
	return s
}

// arithfGen: the float grid for + - * / (all pairs) and for the float-to-integer functions, with the IEEE result class
// computed by Go and the exact decomposition of each float.
func arithfGen(seed int64, n int, opts map[string]string) []J {
	var out []J
	id := 0
	for _, op := range []string{"+", "-", "*", "/"} {
		for _, x := range floatGrid {
			for _, y := range floatGrid {
				var r float64
				switch op {
				case "+":
					r = x + y
				case "-":
					r = x - y
				case "*":
					r = x * y
				case "/":
					r = x / y
				}
				id++
				out = append(out, map[string]J{"id": float64(id), "kind": "binop", "op": op, "x": fRender(x), "y": fRender(y), "rclass": fclass(r), "xzero": x == 0, "yzero": y == 0,
					"rbits": strconv.FormatUint(math.Float64bits(r), 16), "fn": "", "neg": false, "mant": []J{}, "exp": 0.0})
			}
		}
	}
	r := rand.New(rand.NewSource(seed))
	fs := append([]float64{}, floatGrid...)
	for i := 0; i < n; i++ {
		e := r.Intn(140) - 70
		fs = append(fs, math.Ldexp(r.Float64()*2-1, e))
	}
	for _, fn := range []string{"floor", "ceiling", "round", "truncate"} {
		for _, x := range fs {
			mant, exp := math.Frexp(math.Abs(x)) // x = mant * 2^exp, mant in [0.5, 1)
			m := new(big.Int)
			big.NewFloat(math.Ldexp(mant, 53)).Int(m)
			id++
			out = append(out, map[string]J{"id": float64(id), "kind": "ftoi", "fn": fn, "x": fRender(x), "neg": math.Signbit(x), "mant": limbsOf(m), "exp": float64(exp - 53),
				"op": "", "y": "", "rclass": "", "xzero": false, "yzero": false, "rbits": ""})
		}
	}
	return out
}

// arithfHandle: a case joins the generated input (by id) with the outcome ArithF.tla computed.
func arithfHandle(c map[string]J) map[string]J {
	in := c["in"].(map[string]J)
	out := c["out"].(map[string]J)
	p := prolog.New(nil, nil)
	if in["kind"] == "binop" {
		q := fmt.Sprintf("X is %s %s %s.", in["x"], in["op"], in["y"])
		sols, err := p.Query(q)
		if err != nil {
			return map[string]J{"status": "mismatch", "input": "?- " + q, "what": "query did not run", "expected": out, "observed": err.Error()}
		}
		defer sols.Close()
		var got string
		if sols.Next() {
			var r struct{ X float64 }
			if err := sols.Scan(&r); err != nil {
				got = "scan: " + err.Error()
			} else {
				got = "bits:" + strconv.FormatUint(math.Float64bits(r.X), 16)
			}
		} else if e := sols.Err(); e != nil {
			got = e.Error()
		} else {
			got = "false"
		}
		want := "bits:" + in["rbits"].(string)
		if cl := out["class"].(string); cl != "value" {
			want = "error(evaluation_error(" + cl + "),is/2)"
		}
		if got != want {
			return map[string]J{"status": "mismatch", "input": "?- " + q, "what": "float operation (value bit for bit / error class)", "expected": want, "observed": got, "sig": "C07:float:" + in["op"].(string)}
		}
		return map[string]J{"status": "ok", "input": "?- " + q}
	}
	q := fmt.Sprintf("X is %s(%s).", in["fn"], in["x"])
	got, err := arithQuery(p, q)
	if err != nil {
		return map[string]J{"status": "mismatch", "input": "?- " + q, "what": "query did not run", "expected": out, "observed": err.Error()}
	}
	want := "error: error(evaluation_error(int_overflow),'$ctx')"
	if out["kind"] == "int" {
		want = "value: " + bigOf(out["v"]).String()
	}
	if strings.ReplaceAll(got, " ", "") != strings.ReplaceAll(want, " ", "") {
		return map[string]J{"status": "mismatch", "input": "?- " + q, "what": "float-to-integer function (exact or int_overflow)", "expected": want, "observed": got, "sig": "C07:ftoi:" + in["fn"].(string)}
	}
	return map[string]J{"status": "ok", "input": "?- " + q}
}
