package main

// Family "builtins" (C16): cases are calls of the 17 relational built-ins from Builtins.tla: predicate, argument
// pattern (bound values / unbound positions) and the multiset of answer tuples the relation defines. The handler runs
// the call to exhaustion (or takes the first answers of an infinite mode, in order) and compares the answers as
// multisets: each tuple exactly once, nothing else.

import (
	"encoding/json"
	"fmt"
	"sort"
	"strconv"
	"strings"
	"time"

	"github.com/ichiban/prolog"

	"verifharness/internal/jt"
)

func init() {
	register("builtins", &family{handle: builtinsHandle})
}

var symChars = map[string]string{"a": "a", "b": "b", "E2": "é", "J3": "日", ".": ".", "f": "f", "g": "g"}

// specValue converts a value of Builtins.tla into a J term. next numbers the anonymous variables.
func specValue(v J, next *int) J {
	a := v.([]J)
	switch a[0].(string) {
	case "A":
		var sb strings.Builder
		for _, c := range a[1].([]J) {
			sb.WriteString(symChars[c.(string)])
		}
		if sb.String() == "." && false {
			return jt.A(".")
		}
		return jt.A(sb.String())
	case "i":
		return jt.I(jt.Int(a[1]))
	case "B":
		k := int64(jt.Int(a[2]))
		var n int64
		if a[1] == "max" {
			n = 9223372036854775807 - k
		} else {
			n = -9223372036854775808 + k
		}
		return []J{"n", strconv.FormatInt(n, 10)}
	case "L":
		var es []J
		for _, e := range a[1].([]J) {
			es = append(es, specValue(e, next))
		}
		return jt.List(es, nil)
	case "C":
		var es []J
		for _, e := range a[2].([]J) {
			es = append(es, specValue(e, next))
		}
		return jt.C(symChars[a[1].(string)], es...)
	case "U":
		*next++
		return jt.V(1000 + *next)
	case "W":
		return jt.V(500 + jt.Int(a[1]))
	case "v":
		return jt.V(jt.Int(a[1]))
	}
	panic(fmt.Sprint("bad value ", v))
}

// renumber renames the variables of a vector of J terms by first occurrence.
func renumber(ts []J) []J {
	ids := map[int]int{}
	var walk func(t J) J
	walk = func(t J) J {
		a := t.([]J)
		switch a[0].(string) {
		case "v":
			k := jt.Int(a[1])
			if _, ok := ids[k]; !ok {
				ids[k] = len(ids) + 1
			}
			return jt.V(ids[k])
		case "c":
			args := a[2].([]J)
			out := make([]J, len(args))
			for i, x := range args {
				out[i] = walk(x)
			}
			return []J{"c", a[1], out}
		}
		return t
	}
	out := make([]J, len(ts))
	for i, t := range ts {
		out[i] = walk(t)
	}
	return out
}

func renderTuple(ts []J) string {
	var parts []string
	for _, t := range renumber(ts) {
		parts = append(parts, jt.Render(t))
	}
	return strings.Join(parts, " | ")
}

func builtinsHandle(c map[string]J) map[string]J {
	pred := c["pred"].(string)
	pat := c["pat"].([]J)
	var args, iargs, earlier, spineArgs, spineEarlier []string
	var unboundPos []int
	n := 0
	vname := map[int]string{}
	if opt("cells") == "1" { // the instantiated list arguments as chains of './2 cells
		jt.CellLists = true
		defer func() { jt.CellLists = false }()
	}
	for i, a := range pat {
		if a.([]J)[0] == "v" {
			// (the variable is named by the pattern: two positions may hold the same variable)
			unboundPos = append(unboundPos, i)
			vname[i] = fmt.Sprintf("V%d", jt.Int(a.([]J)[1]))
			args = append(args, vname[i])
			iargs = append(iargs, vname[i])
			spineArgs = append(spineArgs, vname[i])
		} else {
			sv := specValue(a, &n)
			t := jt.Render(sv)
			args = append(args, t)
			// option spine: a list argument whose spine runs through a variable bound by an earlier goal: [e1|S] or [e1,e2|S], S = [rest]
			sa := t
			if es, ok := listElems(sv); ok && len(es) >= 1 {
				k := 1 + i%2
				if k > len(es) {
					k = len(es)
				}
				var pre []string
				for _, e := range es[:k] {
					pre = append(pre, jt.Render(e))
				}
				spineEarlier = append(spineEarlier, fmt.Sprintf("S%d = %s", i+1, jt.Render(jt.List(es[k:], jt.A("[]")))))
				sa = fmt.Sprintf("[%s|S%d]", strings.Join(pre, ","), i+1)
			}
			spineArgs = append(spineArgs, sa)
			// the same value reached through a variable that an earlier goal of the query binds
			earlier = append(earlier, fmt.Sprintf("B%d = %s", i+1, t))
			iargs = append(iargs, fmt.Sprintf("B%d", i+1))
		}
	}
	goalOf := func(as []string) string {
		if pred == "univ" {
			return fmt.Sprintf("%s =.. %s", as[0], as[1])
		}
		return fmt.Sprintf("%s(%s)", pred, strings.Join(as, ", "))
	}
	q := goalOf(args) + "."
	if opt("indirect") == "1" && len(earlier) > 0 {
		q = strings.Join(earlier, ", ") + ", " + goalOf(iargs) + "."
	}
	if opt("spine") == "1" && len(spineEarlier) > 0 {
		q = strings.Join(spineEarlier, ", ") + ", " + goalOf(spineArgs) + "."
	}
	infinite, _ := c["infinite"].(bool)
	var want []string
	for _, t := range c["answers"].([]J) {
		tup := t.([]J)
		k := 0
		var sel []J
		for _, i := range unboundPos {
			sel = append(sel, specValue(tup[i], &k))
		}
		want = append(want, renderTuple(sel))
	}
	p := prolog.New(nil, nil)
	sols, err := p.Query(q)
	if err != nil {
		return map[string]J{"status": "mismatch", "input": "?- " + q, "what": "query did not parse", "expected": want, "observed": err.Error()}
	}
	var got []string
	done := make(chan struct{})
	go func() {
		defer close(done)
		for sols.Next() {
			m := map[string]capture{}
			_ = sols.Scan(m)
			cn := jt.NewCanon(nil)
			var sel []J
			for _, i := range unboundPos {
				cv := m[vname[i]]
				cn.Env = cv.env
				sel = append(sel, cn.Term(cv.term))
			}
			var back []J
			bs, _ := json.Marshal(sel)
			_ = json.Unmarshal(bs, &back)
			got = append(got, renderTuple(back))
			if infinite && len(got) >= len(want) {
				return
			}
			if len(got) > len(want)+50 {
				got = append(got, "... (more)")
				return
			}
		}
		if e := sols.Err(); e != nil {
			got = append(got, "ERROR "+e.Error())
		}
	}()
	select {
	case <-done:
	case <-time.After(wd(5 * time.Second)):
		return map[string]J{"status": "mismatch", "input": "?- " + q, "what": "the call did not finish enumerating within 5s", "expected": want, "observed": "hang", "fatal": true}
	}
	_ = sols.Close()
	if !infinite {
		sort.Strings(got)
		sort.Strings(want)
	}
	if strings.Join(got, " ; ") != strings.Join(want, " ; ") {
		what := "answers as a multiset (each tuple of the relation exactly once, nothing else)"
		if infinite {
			what = "the first answers of an infinite mode, in order"
		}
		return map[string]J{"status": "mismatch", "input": "?- " + q, "what": what, "expected": want, "observed": got}
	}
	return map[string]J{"status": "ok", "input": "?- " + q, "answers": len(got)}
}

// listElems returns the elements of a proper list term.
func listElems(t J) ([]J, bool) {
	var es []J
	for {
		a, ok := t.([]J)
		if !ok {
			return nil, false
		}
		if a[0] == "a" && a[1] == "[]" {
			return es, true
		}
		if a[0] != "c" || a[1] != "." {
			return nil, false
		}
		args := a[2].([]J)
		if len(args) != 2 {
			return nil, false
		}
		es = append(es, args[0])
		t = args[1]
	}
}
