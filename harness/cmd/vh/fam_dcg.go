package main

// Family "dcg" (C17): cases are grammars from GenDcg.tla with an input list, a query mode and the sequence of answers
// the translated grammar gives on Engine.tla. The handler loads the grammar as --> rules (consult) and, separately,
// through expand_term/2 + assertz/1, runs phrase/2,3 and compares the answer sequences.

import (
	"encoding/json"
	"fmt"
	"reflect"
	"strings"
	"time"

	"github.com/ichiban/prolog"

	"verifharness/internal/jt"
)

func init() {
	register("dcg", &family{handle: dcgHandle})
}

func dcgRules(gr []J, dq bool) []string {
	body := func(t J) string {
		s := jt.Render(t)
		if dq {
			// the same terminals written as a string literal (double_quotes = chars)
			s = strings.ReplaceAll(s, "[x,y]", "\"xy\"")
			if opt("alphabet") == "unicode" { // (and every terminal list of the body, with the two-byte and three-byte terminals)
				s = strings.ReplaceAll(s, "['é','日']", "\"é日\"")
				s = strings.ReplaceAll(s, "['é']", "\"é\"")
				s = strings.ReplaceAll(s, "['日']", "\"日\"")
			}
		}
		return s
	}
	pb := ""
	if b, _ := gr[5].(bool); b {
		y, x := "y", "x"
		if opt("alphabet") == "unicode" {
			y, x = "日", "é"
		}
		pb = ", [" + y + "]"
		if a2, ok := gr[3].([]J); ok && a2[0] == "a" && a2[1] == "b" {
			pb = ", [" + y + "," + x + "]" // two terminals (GenDcg.tla: Db)
		}
	}
	return []string{
		fmt.Sprintf("s(V1) --> %s", body(gr[0])),
		fmt.Sprintf("s(r) --> %s", body(gr[1])),
		fmt.Sprintf("a(p) --> %s", body(gr[2])),
		fmt.Sprintf("a(q) --> %s", body(gr[3])),
		fmt.Sprintf("b%s --> %s", pb, body(gr[4])),
		"b --> " + body(jt.List([]J{jt.A(map[bool]string{false: "y", true: "日"}[opt("alphabet") == "unicode"])}, jt.A("[]"))),
	}
}

// dcgUnicode maps the symbolic terminals x, y to a two-byte and a three-byte character.
func dcgUnicode(t J) J {
	switch v := t.(type) {
	case []J:
		if len(v) == 2 && v[0] == "a" {
			switch v[1] {
			case "x":
				return []J{"a", "é"}
			case "y":
				return []J{"a", "日"}
			}
			return v
		}
		out := make([]J, len(v))
		for i := range v {
			out[i] = dcgUnicode(v[i])
		}
		return out
	case map[string]J:
		out := map[string]J{}
		for k, x := range v {
			out[k] = dcgUnicode(x)
		}
		return out
	}
	return t
}

func dcgHandle(c map[string]J) map[string]J {
	if opt("alphabet") == "unicode" {
		c = dcgUnicode(c).(map[string]J)
	}
	gr := c["gr"].([]J)
	mode := c["mode"].(string)
	var in []string
	for _, x := range c["inp"].([]J) {
		in = append(in, jt.Render(x))
	}
	input := "[" + strings.Join(in, ",") + "]"
	var q string
	switch mode {
	case "rest":
		q = fmt.Sprintf("phrase(s(V1), %s, V2).", input)
	case "all":
		q = fmt.Sprintf("phrase(s(V1), %s).", input)
	case "gen":
		q = "phrase(s(V1), V2)."
	case "direct":
		q = fmt.Sprintf("phrase(%s, %s, V2).", jt.Render(c["body"]), input)
	case "rem1", "rem2":
		k := 1
		if mode == "rem2" {
			k = 2
		}
		q = fmt.Sprintf("phrase(s(V1), %s, [%s]).", input, strings.Join(in[len(in)-k:], ","))
	}
	want := normEvents(c["events"].([]J))
	for _, path := range []string{"consult", "expand_term"} {
		rules := dcgRules(gr, path == "expand_term")
		p := prolog.New(nil, nil)
		desc := strings.Join(rules, ". ") + ". | " + path + " | ?- " + q
		if path == "consult" {
			if err := p.Exec(strings.Join(rules, ".\n") + ".\n"); err != nil {
				return map[string]J{"status": "mismatch", "input": desc, "what": "loading the grammar", "expected": "ok", "observed": err.Error()}
			}
		} else {
			for _, r := range rules {
				if sol := p.QuerySolution(fmt.Sprintf("expand_term((%s), C), assertz(C).", r)); sol.Err() != nil {
					return map[string]J{"status": "mismatch", "input": desc, "what": "expand_term/2 + assertz/1 of " + r, "expected": "ok", "observed": sol.Err().Error()}
				}
			}
		}
		sols, err := p.Query(q)
		if err != nil {
			return map[string]J{"status": "badcase", "detail": err.Error()}
		}
		var got []map[string]J
		done := make(chan struct{})
		closed := false
		go func() {
			defer close(done)
			n := 0
			for sols.Next() {
				m := map[string]capture{}
				_ = sols.Scan(m)
				cn := jt.NewCanon(nil)
				vec := []J{}
				for i := 1; i <= 2; i++ {
					cv, ok := m[fmt.Sprintf("V%d", i)]
					if !ok {
						vec = append(vec, cn.Term(newVar()))
						continue
					}
					cn.Env = cv.env
					vec = append(vec, cn.Term(cv.term))
				}
				got = append(got, map[string]J{"ev": "ans", "b": vec, "out": ""})
				n++
				if mode == "gen" && n >= 4 {
					closed = true
					_ = sols.Close()
					return
				}
				if n > 100 {
					return
				}
			}
		}()
		select {
		case <-done:
		case <-time.After(wd(5 * time.Second)):
			return map[string]J{"status": "mismatch", "input": desc, "what": "phrase did not finish within 5s", "expected": want, "observed": "hang", "fatal": true}
		}
		switch e := sols.Err(); {
		case closed:
			got = append(got, map[string]J{"ev": "end", "kind": "closed", "out": ""})
		case e != nil:
			got = append(got, map[string]J{"ev": "end", "kind": "error", "ball": e.Error(), "out": ""})
		default:
			got = append(got, map[string]J{"ev": "end", "kind": "fail", "out": ""})
		}
		_ = sols.Close()
		var back []map[string]J
		bs, _ := json.Marshal(got)
		_ = json.Unmarshal(bs, &back)
		for i := 0; i < len(want) || i < len(back); i++ {
			if i >= len(want) || i >= len(back) || !reflect.DeepEqual(want[i], back[i]) {
				var e, o J = "no further answer", "no further answer"
				if i < len(want) {
					e = want[i]
				}
				if i < len(back) {
					o = back[i]
				}
				return map[string]J{"status": "mismatch", "input": desc, "at": i, "what": "sequence of (argument, remainder) answers", "expected": e, "observed": o}
			}
		}
	}
	return map[string]J{"status": "ok", "input": strings.Join(dcgRules(gr, false), ". ") + ". ?- " + q}
}
