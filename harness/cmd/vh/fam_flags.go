package main

// Family "flags": cases are random histories of Flags.tla - set_prolog_flag/2 calls with every kind of argument. After every
// call the outcome class must be one the specification allows, and the observation - the enumeration current_prolog_flag/2
// restricted to the changeable flags, what a call of an undefined procedure does, what a double-quoted string is - must be
// the specification's.

import (
	"fmt"
	"strings"

	"github.com/ichiban/prolog"
	"github.com/ichiban/prolog/engine"

	"verifharness/internal/jt"
)

func init() {
	register("flags", &family{handle: flagsHandle})
}

func flagsArg(a []J, v string) string {
	switch a[0].(string) {
	case "var":
		return v
	case "int":
		return "1"
	case "cmp":
		return "f(x)"
	}
	return a[1].(string)
}

func flagsErrClass(err error) string {
	if err == nil {
		return "ok"
	}
	ex, ok := err.(engine.Exception)
	if !ok {
		return "go error: " + err.Error()
	}
	s := strings.ReplaceAll(jt.Render(jt.NewCanon(nil).Term(ex.Term())), " ", "")
	for _, c := range []struct{ prefix, class string }{
		{"error(instantiation_error,", "instantiation_error"},
		{"error(type_error(atom,", "type_error(atom)"},
		{"error(domain_error(prolog_flag,", "domain_error(prolog_flag)"},
		{"error(domain_error(flag_value,", "domain_error(flag_value)"},
		{"error(permission_error(modify,flag,", "permission_error(modify,flag)"},
	} {
		if strings.HasPrefix(s, c.prefix) {
			return c.class
		}
	}
	return s
}

// flagsObserve: the enumeration restricted to what it lists, the effect of unknown, the effect of double_quotes.
func flagsObserve(p *prolog.Interpreter) (map[string]string, string, string) {
	seen := map[string]string{}
	sols, err := p.Query("current_prolog_flag(F, V).")
	if err != nil {
		return map[string]string{"error": err.Error()}, "", ""
	}
	for sols.Next() {
		var r struct {
			F string
			V interface{}
		}
		if err := sols.Scan(&r); err == nil {
			if _, dup := seen[r.F]; dup {
				seen[r.F] = "listed twice"
			} else {
				seen[r.F] = fmt.Sprint(r.V)
			}
		}
	}
	_ = sols.Close()
	var r struct{ R string }
	undef := "fails"
	if sol := p.QuerySolution("catch((vh_flags_undefined_procedure, R = called), error(existence_error(procedure, _), _), R = existence_error)."); sol.Err() == nil {
		_ = sol.Scan(&r)
		undef = r.R
	} else if sol.Err() != prolog.ErrNoSolutions {
		undef = sol.Err().Error()
	}
	var k struct{ K string }
	str := "?"
	if sol := p.QuerySolution(`X = "ab", ( atom(X) -> K = atom ; X = [C|_], ( integer(C) -> K = codes ; K = chars ) ).`); sol.Err() == nil {
		_ = sol.Scan(&k)
		str = k.K
	} else {
		str = sol.Err().Error()
	}
	return seen, undef, str
}

func flagsHandle(c map[string]J) map[string]J {
	p := prolog.New(nil, &strings.Builder{})
	// a second interpreter that nobody touches: whatever the first one does to its flags, this one observes its defaults (C14)
	other := prolog.New(nil, &strings.Builder{})
	def, defUndef, defStr := flagsObserve(other)
	var desc []string
	for i, x := range c["steps"].([]J) {
		st := x.(map[string]J)
		goal := fmt.Sprintf("set_prolog_flag(%s, %s).", flagsArg(st["f"].([]J), "F"), flagsArg(st["v"].([]J), "V"))
		desc = append(desc, goal)
		input := strings.Join(desc, " ")
		got := flagsErrClass(p.QuerySolution(goal).Err())
		okc := false
		for _, a := range st["allowed"].([]J) {
			okc = okc || a == got
		}
		if !okc {
			return map[string]J{"status": "mismatch", "input": input, "what": fmt.Sprintf("outcome of call %d", i+1), "expected": st["allowed"], "observed": got}
		}
		obs := st["obs"].(map[string]J)
		want := obs["flags"].(map[string]J)
		seen, undef, str := flagsObserve(p)
		for f, v := range want {
			if seen[f] != v.(string) {
				return map[string]J{"status": "mismatch", "input": input, "what": "current_prolog_flag(" + f + ", V) after call " + fmt.Sprint(i+1), "expected": v, "observed": seen[f]}
			}
		}
		for _, ro := range []string{"bounded", "max_integer", "min_integer", "integer_rounding_function", "max_arity"} {
			if seen[ro] != def[ro] || def[ro] == "" {
				return map[string]J{"status": "mismatch", "input": input, "what": "the read-only flag " + ro + " after call " + fmt.Sprint(i+1), "expected": def[ro], "observed": seen[ro]}
			}
		}
		if undef != obs["undefined_call"] {
			return map[string]J{"status": "mismatch", "input": input, "what": "a call of an undefined procedure after call " + fmt.Sprint(i+1), "expected": obs["undefined_call"], "observed": undef}
		}
		if str != obs["string_is"] {
			return map[string]J{"status": "mismatch", "input": input, "what": `what "ab" is after call ` + fmt.Sprint(i+1), "expected": obs["string_is"], "observed": str}
		}
		// the other interpreter
		o2, u2, s2 := flagsObserve(other)
		if fmt.Sprint(o2) != fmt.Sprint(def) || u2 != defUndef || s2 != defStr {
			return map[string]J{"status": "mismatch", "input": input, "what": "the flags of ANOTHER interpreter after call " + fmt.Sprint(i+1), "expected": fmt.Sprint(def, defUndef, defStr), "observed": fmt.Sprint(o2, u2, s2)}
		}
	}
	// current_prolog_flag/2 with every kind of first argument, in the state the history ends in
	for _, x := range c["get"].([]J) {
		g := x.(map[string]J)
		goal := fmt.Sprintf("findall(x, current_prolog_flag(%s, V), L), length(L, N).", flagsArg(g["f"].([]J), "F"))
		var r struct{ N int }
		sol := p.QuerySolution(goal)
		got := flagsErrClass(sol.Err())
		if got == "ok" {
			_ = sol.Scan(&r)
			switch {
			case r.N == 1:
				got = "value"
			case r.N > 1:
				got = "enumerates"
			default:
				got = "fails"
			}
		}
		if got != g["outcome"] {
			return map[string]J{"status": "mismatch", "input": strings.Join(desc, " ") + " " + goal, "what": "current_prolog_flag/2 by kind of first argument", "expected": g["outcome"], "observed": got}
		}
	}
	return map[string]J{"status": "ok", "input": strings.Join(desc, " ")}
}
