package main

// Family "lexer": cases are texts from GenLexer.tla with the token sequence that Lexer.tla (the ISO token syntax, maximal
// munch) gives them. The handler runs the real lexer over the text (accessor engine.VerifTokens) and compares kind and
// characters of every token up to the first invalid one.

import (
	"fmt"
	"os"
	"strings"

	"github.com/ichiban/prolog/engine"
)

func init() {
	register("lexer", &family{handle: lexerHandle})
}

func lexerHandle(c map[string]J) map[string]J {
	var sb strings.Builder
	for _, ch := range c["txt"].([]J) {
		sb.WriteString(ch.(string))
	}
	text := sb.String()
	fmt.Fprintf(os.Stderr, "TEXT %q\n", text)
	got, _ := engine.VerifTokens(strings.NewReader(text))
	want := c["toks"].([]J)
	render := func(ts []string) string { return strings.Join(ts, " ") }
	var ws, gs []string
	for _, w := range want {
		m := w.(map[string]J)
		if m["k"] == "invalid" {
			ws = append(ws, "invalid")
			break
		}
		ws = append(ws, fmt.Sprintf("%s(%s)", m["k"], m["v"]))
	}
	for _, g := range got {
		if g.Kind == "invalid" {
			gs = append(gs, "invalid")
			break
		}
		gs = append(gs, fmt.Sprintf("%s(%s)", g.Kind, g.Val))
	}
	input := fmt.Sprintf("tokens of %q", text)
	if render(ws) != render(gs) {
		return map[string]J{"status": "ok", "input": input, "observation": fmt.Sprintf("%q: lexer %s | Lexer.tla %s", text, render(gs), render(ws))}
	}
	return map[string]J{"status": "ok", "input": input, "nontrivial": len(got) > 0}
}
