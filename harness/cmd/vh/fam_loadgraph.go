package main

// Family "loadgraph" (C05, C20): cases are terminal states of LoadGraph.tla - a graph of files that load and include each
// other, the directive handed to Exec, and the outcome the loader machine reaches: ok / error, the number of files opened,
// the facts visible afterwards. The files live in an in-memory file system that counts the opens and stops serving after
// a limit far above anything the model allows (a loader that recurses without bound would otherwise overflow the Go stack
// and kill the process: that is reported as the violation it is, without losing the worker).

import (
	"fmt"
	"io/fs"
	"sort"
	"strings"
	"testing/fstest"
	"time"

	"github.com/ichiban/prolog"
)

func init() {
	register("loadgraph", &family{handle: loadgraphHandle})
}

type countingFS struct {
	fs.FS
	opened, limit int
}

func (f *countingFS) Open(name string) (fs.File, error) {
	if f.opened >= f.limit {
		return nil, fs.ErrNotExist
	}
	file, err := f.FS.Open(name)
	if err == nil {
		f.opened++
	}
	return file, err
}

func loadDirective(d []J, variant int) string {
	x := d[1].(string)
	switch d[0].(string) {
	case "ens":
		return []string{"ensure_loaded(" + x + ")", "consult(" + x + ")", "[" + x + "]"}[variant%3]
	case "inc":
		return "include(" + x + ")"
	default:
		return "initialization(consult(" + x + "))"
	}
}

func loadgraphHandle(c map[string]J) map[string]J {
	files := c["files"].(map[string]J)
	mfs := fstest.MapFS{}
	var names []string
	for n := range files {
		names = append(names, n)
	}
	sort.Strings(names)
	var desc []string
	for _, n := range names {
		var sb strings.Builder
		for i, d := range files[n].([]J) {
			sb.WriteString(":- " + loadDirective(d.([]J), i+len(n)) + ".\n")
		}
		sb.WriteString("f_" + n + ".\n")
		mfs[n+".pl"] = &fstest.MapFile{Data: []byte(sb.String())}
		desc = append(desc, n+".pl: "+strings.ReplaceAll(strings.TrimSpace(sb.String()), "\n", " "))
	}
	cfs := &countingFS{FS: mfs, limit: 300}
	p := prolog.New(nil, nil)
	p.FS = cfs
	text := ":- " + loadDirective(c["entry"].([]J), 0) + "."
	input := strings.Join(desc, " | ") + " | Exec(" + text + ")"
	done := make(chan error, 1)
	go func() { done <- p.Exec(text) }()
	var err error
	select {
	case err = <-done:
	case <-time.After(wd(10 * time.Second)):
		return map[string]J{"status": "mismatch", "input": input, "what": "Exec did not return within 10s", "expected": c["status"], "observed": "blocked"}
	}
	if cfs.opened >= cfs.limit {
		return map[string]J{"status": "mismatch", "input": input, "what": "the loader opened files until the file system ran dry (with a real one it recurses until the stack overflows)",
			"expected": c["opens"], "observed": fmt.Sprintf("%d opens, err = %v", cfs.opened, err)}
	}
	status := "ok"
	if err != nil {
		status = "error"
	}
	opened := cfs.opened
	var defined []string
	for _, n := range names {
		sol := p.QuerySolution("catch(f_" + n + ", error(existence_error(_, _), _), fail).")
		if sol.Err() == nil {
			defined = append(defined, n)
		}
	}
	var wantDef []string
	for _, d := range c["defined"].([]J) {
		wantDef = append(wantDef, d.(string))
	}
	sort.Strings(wantDef)
	obs := fmt.Sprintf("%s opens=%d defined=%v", status, opened, defined)
	exp := fmt.Sprintf("%s opens=%d defined=%v", c["status"], int(c["opens"].(float64)), wantDef)
	if obs != exp {
		return map[string]J{"status": "mismatch", "input": input, "what": "outcome of the load", "expected": exp, "observed": fmt.Sprintf("%s (err = %v)", obs, err)}
	}
	return map[string]J{"status": "ok", "input": input}
}
