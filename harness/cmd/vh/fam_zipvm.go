package main

// Family "zipvm" (C10/C01, instruction level): a case is a program and a query (as for family "engine"). The handler runs
// the query with the VM hooks on (activation of a clause, every instruction, head done) and records, for the first
// activations, the compiled clause, the call's arguments, the instructions executed until the head was done, the outcome and
// the call's arguments as instantiated afterwards. TLC validates every record against ZipVM.tla (ZipVMTrace.tla).

import (
	"context"
	"fmt"
	"strings"
	"time"

	"github.com/ichiban/prolog"
	"github.com/ichiban/prolog/engine"

	"verifharness/internal/jt"
)

func init() {
	register("zipvm", &family{handle: zipvmHandle})
}

// envCanon numbers the unbound variables of terms resolved under an environment by first occurrence.
type envCanon struct {
	env   *engine.Env
	ids   map[engine.Variable]int
	nodes int
	big   bool
}

func (c *envCanon) term(t engine.Term, depth int) J {
	c.nodes++
	if depth > 200 || c.nodes > 4000 {
		c.big = true
		return []J{"a", "$big"}
	}
	switch t := c.env.Resolve(t).(type) {
	case engine.Variable:
		n, ok := c.ids[t]
		if !ok {
			n = len(c.ids) + 1
			c.ids[t] = n
		}
		return []J{"v", float64(n)}
	case engine.Atom:
		return []J{"a", asciiName(t.String())}
	case engine.Integer:
		if t > 1<<30 || t < -(1<<30) {
			return []J{"n", fmt.Sprint(int64(t))}
		}
		return []J{"i", float64(t)}
	case engine.Float:
		return []J{"n", fmt.Sprint(float64(t)) + "f"}
	case engine.Compound:
		args := make([]J, t.Arity())
		for i := range args {
			args[i] = c.term(t.Arg(i), depth+1)
		}
		return []J{"c", asciiName(t.Functor().String()), args}
	}
	return []J{"a", fmt.Sprintf("$%T", t)}
}

func zipvmHandle(c map[string]J) map[string]J {
	prog, user := engineProgram(c["db"].([]J))
	query := jt.Render(c["query"]) + "."
	input := strings.ReplaceAll(strings.TrimSpace(prog), "\n", " | ") + " | ?- " + query
	p := prolog.New(strings.NewReader(""), &strings.Builder{})
	if err := p.Exec(prog); err != nil {
		return map[string]J{"status": "discard", "why": "program does not load", "input": input}
	}
	const maxRecords = 60
	var events []J
	type open struct {
		rec   map[string]J
		args  []engine.Term
		path  []J
		body  bool // the head is done and the clause has a body: recording goes on until the first call
		path2 []J
	}
	var cur *open
	engine.VerifHooks.OnCall = func(_ *engine.VM, name engine.Atom, gargs []engine.Term, env *engine.Env) {
		if cur == nil || !cur.body {
			return
		}
		o := cur
		cur = nil
		// the call's arguments and the goal's arguments under one numbering of the variables
		cn := &envCanon{env: env, ids: map[engine.Variable]int{}}
		after := []J{}
		for _, a := range o.args {
			after = append(after, cn.term(a, 0))
		}
		ga := []J{}
		for _, a := range gargs {
			ga = append(ga, cn.term(a, 0))
		}
		if cn.big {
			return
		}
		o.rec["after"], o.rec["goal"], o.rec["goalargs"], o.rec["path2"] = after, asciiName(name.String()), ga, o.path2
		events = append(events, o.rec)
	}
	engine.VerifHooks.OnActivate = func(vc engine.VerifClause, args []engine.Term, env *engine.Env) {
		cur = nil
		if len(events) >= maxRecords || !user[fmt.Sprintf("%s/%d", vc.Name.String(), vc.Arity)] {
			return
		}
		code := []J{}
		for _, in := range vc.Code {
			var operand J = []J{"a", "$none"}
			if in.Operand != nil {
				operand = (&rawCanon{ids: map[engine.Variable]int{}}).term(in.Operand)
			}
			code = append(code, []J{in.Op, operand})
		}
		cn := &envCanon{env: env, ids: map[engine.Variable]int{}}
		before := make([]J, len(args))
		for i, a := range args {
			before[i] = cn.term(a, 0)
		}
		if cn.big {
			return
		}
		cur = &open{rec: map[string]J{"ev": "activation", "pred": asciiName(vc.Name.String()), "arity": float64(vc.Arity), "nvars": float64(vc.NVars), "code": code, "args": before}, args: args}
	}
	engine.VerifHooks.OnInstr = func(op string) {
		if cur == nil {
			return
		}
		if cur.body {
			cur.path2 = append(cur.path2, op)
			if op == "exit" { // a body of cuts only: no goal
				events = append(events, cur.rec)
				cur = nil
			}
			return
		}
		cur.path = append(cur.path, op)
	}
	engine.VerifHooks.OnHeadDone = func(env *engine.Env) {
		if cur == nil {
			return
		}
		if cur.body {
			return
		}
		o := cur
		cur = nil
		o.rec["path"] = o.path
		o.rec["ok"] = env != nil
		after := []J{}
		if env != nil {
			cn := &envCanon{env: env, ids: map[engine.Variable]int{}}
			for _, a := range o.args {
				after = append(after, cn.term(a, 0))
			}
			if cn.big {
				return // a cyclic or huge instantiation (no occurs check in head unification): not recorded
			}
		}
		o.rec["after"] = after
		if env != nil && len(o.path) > 0 && o.path[len(o.path)-1] == "enter" {
			o.body = true // goes on until the first call (OnCall)
			cur = o
			return
		}
		events = append(events, o.rec)
	}
	defer func() {
		engine.VerifHooks.OnActivate, engine.VerifHooks.OnInstr, engine.VerifHooks.OnHeadDone, engine.VerifHooks.OnCall = nil, nil, nil, nil
	}()
	ctx, cancel := context.WithTimeout(context.Background(), wd(3*time.Second))
	defer cancel()
	sols, err := p.QueryContext(ctx, query)
	if err != nil {
		return map[string]J{"status": "discard", "why": "query does not parse", "input": input}
	}
	for n := 0; n < 4 && sols.Next(); n++ {
	}
	_ = sols.Close()
	if len(events) == 0 {
		return map[string]J{"status": "discard", "why": "no clause activation", "input": input}
	}
	return map[string]J{"status": "recorded", "input": input, "events": events}
}
