package main

// Family "cancel" (C13): a case names a looping program shape, the API entry point and a cancellation instant
// (the k-th poll or the k-th child of the trampoline, counted by the hooks). The handler runs the program on the real
// interpreter, cancels the context from inside the hook at exactly that instant and records every poll / child event
// (with its nesting level, taken from the Go call stack, and whether the level polls the caller's context), the
// cancellation and how the pending API call ended. The recorded trace is validated by TLC against CancelTrace.tla.

import (
	"context"
	"errors"
	"fmt"
	"os"
	"path/filepath"
	"runtime"
	"strings"
	"sync/atomic"
	"testing/fstest"
	"time"

	"github.com/ichiban/prolog"
	"github.com/ichiban/prolog/engine"

	"verifharness/internal/jt"
)

func init() {
	register("cancel", &family{handle: cancelHandle, gen: cancelGen})
}

type cancelShape struct {
	name    string
	api     string // "query" | "solution" | "exec"
	program string // consulted first (with a live background context)
	text    string // query text or program text
	endless bool
}

var cancelShapes = []cancelShape{
	{"repeat-fail", "query", "", "repeat, fail.", true},
	{"length-fail", "query", "", "length(_, _), fail.", true},
	{"between-fail", "query", "", "between(1, 1000000000000, _), fail.", true},
	// generate-and-test loops whose test is a built-in that fails at once (no user-defined predicate, no delayed alternative after
	// the generator): every candidate must still pass through the trampoline
	{"between-test", "query", "", "between(1, 1000000000000, X), X < 0.", true},
	{"between-unify", "solution", "", "between(0, 1000000000000, X), X = a.", true},
	{"not-between-type", "query", "", "\\+ (between(1, 1000000000000, X), atom(X)).", true},
	{"length-test", "query", "", "length(_, N), N < 0.", true},
	{"repeat-test", "query", "", "repeat, 1 > 2.", true},
	{"rec", "query", "rec :- rec.", "rec.", true},
	{"mutual-rec", "solution", "ping(X) :- pong(s(X)). pong(X) :- ping(X).", "ping(0).", true},
	{"findall", "query", "", "findall(X, (repeat, X = 1, fail), _).", true},
	{"not", "query", "", "\\+ (repeat, fail).", true},
	{"catch", "query", "", "catch((repeat, fail), _, true).", true},
	{"findall-not", "solution", "", "findall(X, \\+ (repeat, X = 1, fail), _).", true},
	{"catch-findall-rec", "query", "rec :- rec.", "catch(findall(_, rec, _), _, true).", true},
	{"not-not-findall", "query", "", "\\+ \\+ findall(_, (repeat, fail), _).", true},
	{"bagof", "query", "", "bagof(X, (repeat, X = 1, fail), _).", true},
	{"answers-then-loop", "query", "", "(X = 1 ; X = 2 ; repeat, fail), X > 2.", true},
	{"initialization", "exec", "", ":- initialization((repeat, fail)).", true},
	{"directive", "exec", "", "foo. :- repeat, fail.", true},
	{"directive-findall", "exec", "", ":- findall(_, (repeat, fail), _).", true},
	{"consult", "query", "", "consult('@FILE@').", true},
	// the loop runs inside a file that is being loaded (cancelLibs); afterwards the same file must load and define its clauses
	{"load-short", "query", cancelReady, "consult(lib).", true},
	{"load-ensure-init", "exec", cancelReady, ":- ensure_loaded(lib).", true},
	{"load-ext", "solution", cancelReady, "consult('lib.pl').", true},
	{"finite", "query", "", "(between(1, 12, _), fail ; true).", false},
	{"finite-findall", "solution", "", "findall(X, between(1, 6, X), L), length(L, 6).", false},
}

const cancelReady = ":- dynamic(ready/0). wait_ready :- repeat, ready, !."

// cancelLibs: the file lib.pl of the shapes that load a file (an in-memory file system); it waits for ready/0 to be asserted
var cancelLibs = map[string]string{
	"load-short":       ":- wait_ready.\nanswer(42).\n",
	"load-ensure-init": "answer(42).\n:- initialization(wait_ready).\n",
	"load-ext":         "first(41).\n:- wait_ready.\nanswer(42).\n",
}

// cancelReload: after the cancelled load, the same load must go through and define the file's clauses.
func cancelReload(p *prolog.Interpreter, shape *cancelShape) string {
	if err := p.QuerySolution("assertz(ready).").Err(); err != nil {
		return "assertz(ready): " + err.Error()
	}
	done := make(chan string, 1)
	go func() {
		var err error
		if shape.api == "exec" {
			err = p.Exec(shape.text)
		} else {
			err = p.QuerySolution(shape.text).Err()
		}
		if err != nil {
			done <- "the load after the cancelled load: " + err.Error()
			return
		}
		var r struct{ L []int }
		if err := p.QuerySolution("findall(X, answer(X), L).").Scan(&r); err != nil {
			done <- "answer/1 after the load that followed the cancelled load: " + err.Error()
			return
		}
		if len(r.L) == 0 || r.L[len(r.L)-1] != 42 {
			done <- fmt.Sprintf("answer/1 after the load that followed the cancelled load: %v", r.L)
			return
		}
		done <- "ok"
	}()
	select {
	case s := <-done:
		return s
	case <-time.After(wd(5 * time.Second)):
		return "the load after the cancelled load did not return"
	}
}

// goid returns the id of the calling goroutine.
func goid() string {
	var buf [64]byte
	n := runtime.Stack(buf[:], false)
	f := strings.Fields(string(buf[:n]))
	if len(f) > 1 {
		return f[1]
	}
	return "?"
}

func forceDepth() int {
	pcs := make([]uintptr, 256)
	n := runtime.Callers(2, pcs)
	frames := runtime.CallersFrames(pcs[:n])
	d := 0
	for {
		f, more := frames.Next()
		if strings.HasSuffix(f.Function, "(*Promise).Force") {
			d++
		}
		if !more {
			break
		}
	}
	return d
}

func cancelHandle(c map[string]J) map[string]J {
	shapeName := c["shape"].(string)
	var shape *cancelShape
	for i := range cancelShapes {
		if cancelShapes[i].name == shapeName {
			shape = &cancelShapes[i]
		}
	}
	if shape == nil {
		return map[string]J{"status": "badcase", "detail": "unknown shape " + shapeName}
	}
	at := c["at"].(string) // "poll" | "child" | "before" (already cancelled) | "never"
	k := jt.Int(c["k"])
	input := fmt.Sprintf("shape=%s api=%s text=%q cancel at %s #%d", shape.name, shape.api, shape.text, at, k)

	var out strings.Builder
	p := prolog.New(strings.NewReader(""), &out)
	if lib, ok := cancelLibs[shape.name]; ok {
		p.FS = fstest.MapFS{"lib.pl": &fstest.MapFile{Data: []byte(lib)}}
	}
	if shape.program != "" {
		if err := p.Exec(shape.program); err != nil {
			return map[string]J{"status": "badcase", "detail": err.Error()}
		}
	}
	text := shape.text
	if strings.Contains(text, "@FILE@") {
		dir := opt("tmp")
		if dir == "" {
			dir = os.TempDir()
		}
		f := filepath.Join(dir, fmt.Sprintf("vh-cancel-%d.pl", os.Getpid()))
		_ = os.WriteFile(f, []byte("bar.\n:- repeat, fail.\n"), 0o644)
		defer os.Remove(f)
		text = strings.ReplaceAll(text, "@FILE@", f)
	}

	ctx, cancel := context.WithCancel(context.Background())
	defer cancel()
	var events []map[string]J
	cancelled := false
	polls, children, after := 0, 0, 0
	overflow := false
	doCancel := func() {
		cancelled = true
		cancel()
		events = append(events, map[string]J{"ev": "cancel"})
	}
	own := func(hctx context.Context) string {
		if hctx == ctx {
			return "caller"
		}
		return "background"
	}
	var active int32 = 1
	root := ""
	mine := func(hctx context.Context) bool {
		// only the goroutine that runs the query under test is recorded (a follow-up query or an abandoned search
		// goroutine must not leak events into this trace). It is the first one that reports a step under the context of this
		// case: the search goroutine of the previous case's last query may still be winding down when the hooks are installed.
		if atomic.LoadInt32(&active) == 0 {
			return false
		}
		g := goid()
		if root == "" {
			if hctx != ctx {
				return false
			}
			root = g
		}
		return g == root
	}
	record := func(e map[string]J) {
		if cancelled {
			after++
		}
		if len(events) > 5000 || after > 200 {
			overflow = true
			return
		}
		events = append(events, e)
	}
	engine.VerifHooks.OnPoll = func(hctx context.Context) {
		if !mine(hctx) {
			return
		}
		polls++
		if at == "poll" && polls == k && !cancelled {
			doCancel()
		}
		record(map[string]J{"ev": "poll", "l": forceDepth(), "own": own(hctx)})
	}
	engine.VerifHooks.OnChild = func(hctx context.Context) {
		if !mine(hctx) {
			return
		}
		children++
		if at == "child" && children == k && !cancelled {
			doCancel()
		}
		record(map[string]J{"ev": "child", "l": forceDepth()})
	}
	defer func() { engine.VerifHooks.OnPoll, engine.VerifHooks.OnChild = nil, nil }()
	if at == "before" {
		doCancel()
	}

	type result struct {
		err error
		ok  bool
	}
	done := make(chan result, 1)
	t0 := time.Now()
	go func() {
		switch shape.api {
		case "query":
			sols, err := p.QueryContext(ctx, text)
			if err != nil {
				done <- result{err: err}
				return
			}
			ok := sols.Next()
			err = sols.Err()
			_ = sols.Close()
			done <- result{err: err, ok: ok}
		case "solution":
			sol := p.QuerySolutionContext(ctx, text)
			err := sol.Err()
			if errors.Is(err, prolog.ErrNoSolutions) {
				err = nil
			}
			done <- result{err: err, ok: err == nil}
		case "exec":
			done <- result{err: p.ExecContext(ctx, text)}
		}
	}()
	var res result
	select {
	case res = <-done:
	case <-time.After(wd(3 * time.Second)):
		// the worker is abandoned: its goroutine is still running the query
		atomic.StoreInt32(&active, 0)
		return map[string]J{"status": "mismatch", "input": input, "what": "the pending call did not return within 3s after the cancellation", "expected": "returns ctx.Err() promptly",
			"observed": fmt.Sprintf("still running; cancelled=%v polls=%d children=%d events after cancel=%d", cancelled, polls, children, after), "fatal": true}
	}
	elapsed := time.Since(t0)
	atomic.StoreInt32(&active, 0)
	engine.VerifHooks.OnPoll, engine.VerifHooks.OnChild = nil, nil
	if overflow {
		return map[string]J{"status": "mismatch", "input": input, "what": "the trampoline kept running after the cancellation", "expected": "at most one more child", "observed": fmt.Sprintf("%d events after the cancellation", after)}
	}
	if !cancelled {
		// the instant was never reached (finite program ended first): nothing to judge beyond a normal end
		if shape.endless {
			return map[string]J{"status": "discard", "why": "instant-not-reached", "input": input}
		}
	}
	errClass := "none"
	switch {
	case res.err == nil:
	case errors.Is(res.err, context.Canceled):
		errClass = "ctx"
	default:
		errClass = "other:" + res.err.Error()
	}
	// the interpreter stays usable
	followup := "ok"
	if err := p.Exec("after_cancel(1). after_cancel(2)."); err != nil {
		followup = "exec: " + err.Error()
	} else if sols, err := p.Query("after_cancel(X), Y is X * 2."); err != nil {
		followup = "query: " + err.Error()
	} else {
		var got []string
		for sols.Next() {
			var r struct{ X, Y int }
			_ = sols.Scan(&r)
			got = append(got, fmt.Sprintf("%d-%d", r.X, r.Y))
		}
		if strings.Join(got, ",") != "1-2,2-4" || sols.Err() != nil {
			followup = fmt.Sprintf("answers %v err %v", got, sols.Err())
		}
		_ = sols.Close()
	}
	if _, ok := cancelLibs[shape.name]; ok && followup == "ok" && cancelled {
		followup = cancelReload(p, shape)
	}
	events = append(events, map[string]J{"ev": "end", "err": errClass, "endless": shape.endless, "followup": followup, "ms": elapsed.Milliseconds()})
	return map[string]J{"status": "recorded", "events": events, "input": input}
}

func cancelGen(seed int64, n int, opts map[string]string) []J {
	var out []J
	for _, s := range cancelShapes {
		out = append(out, map[string]J{"shape": s.name, "at": "before", "k": 0})
		for k := 1; k <= n; k++ {
			out = append(out, map[string]J{"shape": s.name, "at": "poll", "k": k})
			out = append(out, map[string]J{"shape": s.name, "at": "child", "k": k})
		}
	}
	return out
}

// Family "cancelwall": the same shapes, cancelled after a wall-clock delay (so also in the middle of a child), plus
// deadlines. Judged by the outcome contract only: the pending call returns the context's error within the bound and
// the interpreter stays usable.
func init() {
	register("cancelwall", &family{handle: cancelWallHandle, gen: cancelWallGen})
}

func cancelWallGen(seed int64, n int, opts map[string]string) []J {
	var out []J
	x := uint64(seed)*2654435761 + 12345
	for i := 0; i < n; i++ {
		x = x*6364136223846793005 + 1442695040888963407
		s := cancelShapes[int(x>>33)%len(cancelShapes)]
		if !s.endless {
			continue
		}
		x = x*6364136223846793005 + 1442695040888963407
		delayUs := int(x>>33) % 50000
		mode := "cancel"
		if i%4 == 3 {
			mode = "deadline"
		}
		out = append(out, map[string]J{"shape": s.name, "delay_us": delayUs, "mode": mode})
	}
	return out
}

func cancelWallHandle(c map[string]J) map[string]J {
	var shape *cancelShape
	for i := range cancelShapes {
		if cancelShapes[i].name == c["shape"].(string) {
			shape = &cancelShapes[i]
		}
	}
	delay := time.Duration(jt.Int(c["delay_us"])) * time.Microsecond
	mode := c["mode"].(string)
	input := fmt.Sprintf("shape=%s api=%s text=%q %s after %s", shape.name, shape.api, shape.text, mode, delay)
	p := prolog.New(strings.NewReader(""), &strings.Builder{})
	if lib, ok := cancelLibs[shape.name]; ok {
		p.FS = fstest.MapFS{"lib.pl": &fstest.MapFile{Data: []byte(lib)}}
	}
	if shape.program != "" {
		_ = p.Exec(shape.program)
	}
	text := shape.text
	if strings.Contains(text, "@FILE@") {
		dir := opt("tmp")
		if dir == "" {
			dir = os.TempDir()
		}
		f := filepath.Join(dir, fmt.Sprintf("vh-cancelw-%d.pl", os.Getpid()))
		_ = os.WriteFile(f, []byte("bar.\n:- repeat, fail.\n"), 0o644)
		defer os.Remove(f)
		text = strings.ReplaceAll(text, "@FILE@", f)
	}
	var ctx context.Context
	var cancel context.CancelFunc
	if mode == "deadline" {
		ctx, cancel = context.WithTimeout(context.Background(), delay)
	} else {
		ctx, cancel = context.WithCancel(context.Background())
		time.AfterFunc(delay, cancel)
	}
	defer cancel()
	done := make(chan error, 1)
	go func() {
		switch shape.api {
		case "query":
			sols, err := p.QueryContext(ctx, text)
			if err != nil {
				done <- err
				return
			}
			sols.Next()
			err = sols.Err()
			_ = sols.Close()
			done <- err
		case "solution":
			done <- p.QuerySolutionContext(ctx, text).Err()
		case "exec":
			done <- p.ExecContext(ctx, text)
		}
	}()
	select {
	case err := <-done:
		want := ctx.Err()
		if want == nil || !errors.Is(err, want) {
			return map[string]J{"status": "mismatch", "input": input, "what": "error returned by the pending call", "expected": fmt.Sprint(want), "observed": fmt.Sprint(err)}
		}
	case <-time.After(delay + wd(3*time.Second)):
		return map[string]J{"status": "mismatch", "input": input, "what": "the pending call did not return within 3s after the cancellation", "expected": "prompt return", "observed": "still running"}
	}
	sols, err := p.Query("X = after.")
	if err != nil || !sols.Next() {
		return map[string]J{"status": "mismatch", "input": input, "what": "follow-up query on the same interpreter", "expected": "X = after", "observed": fmt.Sprint(err)}
	}
	_ = sols.Close()
	if _, ok := cancelLibs[shape.name]; ok {
		if f := cancelReload(p, shape); f != "ok" {
			return map[string]J{"status": "mismatch", "input": input, "what": "the same load after the cancelled one", "expected": "loads and defines answer(42)", "observed": f}
		}
	}
	return map[string]J{"status": "ok", "input": input}
}
