package main

// Family "compiled" (C10, structure): a case is a set of clauses added through consult and through assertz/asserta
// (with variables already bound in the calling environment, with arguments built at run time). The handler adds them
// to a real interpreter and dumps, through the accessor hook, every compiled clause of the predicates under test:
// stored term, number of variables, bytecode. TLC checks each record with Decompile.tla (DecompileTrace.tla).

import (
	"fmt"
	"math/rand"
	"sort"
	"strings"

	"github.com/ichiban/prolog"
	"github.com/ichiban/prolog/engine"

	"verifharness/internal/jt"
)

func init() {
	register("compiled", &family{handle: compiledHandle, gen: compiledGen})
}

func asciiName(s string) string {
	var sb strings.Builder
	for _, r := range s {
		if r < 127 && r >= 32 && r != '#' {
			sb.WriteRune(r)
		} else {
			fmt.Fprintf(&sb, "#%x;", r)
		}
	}
	return sb.String()
}

type rawCanon struct{ ids map[engine.Variable]int }

func (c *rawCanon) term(t engine.Term) J {
	switch t := t.(type) {
	case engine.Variable:
		n, ok := c.ids[t]
		if !ok {
			n = len(c.ids) + 1
			c.ids[t] = n
		}
		return []J{"v", float64(n)}
	case engine.Atom:
		return []J{"a", asciiName(t.String())}
	case engine.Integer:
		if t > 1<<30 || t < -(1<<30) {
			return []J{"n", fmt.Sprint(int64(t))}
		}
		return []J{"i", float64(t)}
	case engine.Float:
		return []J{"n", fmt.Sprint(float64(t)) + "f"}
	case engine.Compound:
		args := make([]J, t.Arity())
		for i := range args {
			args[i] = c.term(t.Arg(i))
		}
		return []J{"c", asciiName(t.Functor().String()), args}
	default:
		return []J{"a", fmt.Sprintf("$%T", t)}
	}
}

func dumpClauses(vm *engine.VM, keep func(name string) bool) []map[string]J {
	procs := engine.VerifProcedures(vm)
	sort.Slice(procs, func(i, j int) bool {
		if procs[i].Name.String() != procs[j].Name.String() {
			return procs[i].Name.String() < procs[j].Name.String()
		}
		return procs[i].Arity < procs[j].Arity
	})
	var out []map[string]J
	for _, p := range procs {
		if !p.User || !keep(p.Name.String()) {
			continue
		}
		for _, c := range p.Clauses {
			cn := &rawCanon{ids: map[engine.Variable]int{}}
			raw := cn.term(c.Raw)
			code := []J{}
			for _, in := range c.Code {
				var operand J = []J{"a", "$none"}
				if in.Operand != nil {
					operand = (&rawCanon{ids: map[engine.Variable]int{}}).term(in.Operand)
				}
				code = append(code, []J{in.Op, operand})
			}
			out = append(out, map[string]J{"ev": "clause", "pred": asciiName(c.Name.String()), "arity": float64(c.Arity), "raw": raw, "nvars": float64(c.NVars), "code": code})
		}
	}
	return out
}

func compiledHandle(c map[string]J) map[string]J {
	p := prolog.New(nil, nil)
	if b, _ := c["bootstrap"].(bool); b {
		evs := dumpClauses(&p.VM, func(string) bool { return true })
		return map[string]J{"status": "recorded", "events": evs, "input": "every clause of bootstrap.pl"}
	}
	text, _ := c["text"].(string)
	if text != "" {
		if err := p.Exec(text); err != nil {
			return map[string]J{"status": "discard", "why": "clause text rejected: " + err.Error(), "input": text}
		}
	}
	var log []string
	for _, q := range c["queries"].([]J) {
		sol := p.QuerySolution(q.(string))
		if err := sol.Err(); err != nil {
			return map[string]J{"status": "discard", "why": "assert query failed: " + err.Error(), "input": q.(string)}
		}
		log = append(log, "?- "+q.(string))
	}
	evs := dumpClauses(&p.VM, func(n string) bool { return strings.HasPrefix(n, "t_") })
	return map[string]J{"status": "recorded", "events": evs, "input": text + strings.Join(log, "\n")}
}

// compiledGen: random clauses (heads and body goals with atoms, numbers, strings, nested compounds, proper and partial
// lists of any length, repeated and singleton variables, variable goals, cut, top-level disjunctions, if-then-else),
// each consulted and asserted; for the assert path some variables are bound in the calling environment first and some
// arguments are built at run time.
func compiledGen(seed int64, n int, opts map[string]string) []J {
	r := rand.New(rand.NewSource(seed))
	out := []J{map[string]J{"bootstrap": true}}
	g := &pgen{r: r, feat: map[string]bool{"cut": true, "catch": true, "bag": true}}
	str := []string{`"ab"`, `"x"`, `""`, `[0'a,0'b]`, `'A b'`, `2.5`, `[]`, `[a,b,c,d,e,f,g,h,i,j]`, `[a|T9]`, `[[a,b],[c|T8]]`, `f("ab",[a|"cd"])`, `- 1`, `-(1)`, `- a`, `1 - 2`, `{a}`, `'[]'`, `{}`}
	for i := 0; i < n; i++ {
		db, _, _ := g.program()
		var text strings.Builder
		var queries []J
		for _, pr := range db {
			pm := pr.(map[string]J)
			key := pm["key"].([]J)
			name := "t_" + key[0].(string)
			for _, cl := range pm["cls"].([]J) {
				cm := cl.(map[string]J)
				head := renamePred(cm["head"], name)
				clause := jt.Render(head)
				body := cm["body"]
				// sprinkle literals of the other representations into the body as an extra goal
				extra := ""
				if r.Intn(3) == 0 {
					extra = fmt.Sprintf("t_lit(%s, %s)", str[r.Intn(len(str))], str[r.Intn(len(str))])
				}
				if b := body.([]J); !(b[0] == "a" && b[1] == "true") || extra != "" {
					bt := jt.Render(body)
					if extra != "" {
						if b[0] == "a" && b[1] == "true" {
							bt = extra
						} else {
							bt = extra + ", " + bt
						}
					}
					clause += " :- " + bt
				}
				fmt.Fprintf(&text, "%s.\n", clause)
				// the same clause through assertz / asserta, with a variable bound before and an argument built at run time
				pre := ""
				if nv := jt.Int(cm["nv"]); nv > 0 && r.Intn(2) == 0 {
					k := 1 + r.Intn(nv)
					vals := []string{"a", "f(b)", "[x,y]", "\"cd\"", "g(Z1, Z2)", "7"}
					pre = fmt.Sprintf("V%d = %s, ", k, vals[r.Intn(len(vals))])
				}
				if r.Intn(3) == 0 {
					// arguments built at run time: the prefix of the partial list that append/3 makes is a slice-backed list, a list
					// of characters, or a chain of './2 cells
					pre += []string{"append([a], T7, L7), atom_chars(abc, C7), ", "atom_chars(ab, C7), append(C7, T7, L7), ",
						"C7 = '.'(a, '.'(b, [])), append(C7, T7, L7), ", "atom_codes(ab, C7), append(C7, [c|T7], L7), "}[r.Intn(4)]
					clause2 := strings.Replace(clause, name+"(", name+"_r(L7, C7, ", 1)
					if clause2 != clause {
						clause = clause2
					}
				}
				op := "assertz"
				if r.Intn(3) == 0 {
					op = "asserta"
				}
				aname := strings.Replace(clause, name, name+"_a", 1)
				queries = append(queries, fmt.Sprintf("%s%s((%s)).", pre, op, aname))
			}
		}
		out = append(out, map[string]J{"text": text.String(), "queries": queries})
	}
	return out
}

func renamePred(t J, name string) J {
	a := t.([]J)
	switch a[0].(string) {
	case "a":
		return []J{"a", name}
	case "c":
		return []J{"c", name, a[2]}
	}
	return t
}
