package main

// Family "syntax" (C18 reading half, C06 read-back): cases are token sequences from GenSyntax.tla with the sets Strict and
// Relaxed of terms that Syntax.tla (the ISO term grammar over tokens, parametrised by the operator table) gives them.
// The handler writes the tokens as text, brings an interpreter to the same operator table through op/3, reads the text
// with the real parser and checks the reader contract:
//   Strict non-empty  => a term, member of Strict;   otherwise => a syntax error or a member of Relaxed.

import (
	"encoding/json"
	"fmt"
	"os"
	"reflect"
	"strings"

	"github.com/ichiban/prolog"
	"github.com/ichiban/prolog/engine"

	"verifharness/internal/jt"
)

func init() {
	register("syntax", &family{handle: syntaxHandle})
}

// every name that occurs in an alphabet of GenSyntax.tla: their built-in definitions are removed before the table is set up
var syntaxNames = []string{"a", "-", "=", ":-", "fy1", "fx1", "xfx1", "xfy1", "yfx1", "xf1", "yf1", "pp", "hi"}

var (
	syntaxInterp *prolog.Interpreter
	syntaxTable  []J
)

func syntaxSetup() error {
	if syntaxInterp != nil {
		return nil
	}
	if err := json.Unmarshal([]byte(opt("table")), &syntaxTable); err != nil {
		return fmt.Errorf("no table given: %v", err)
	}
	p := prolog.New(strings.NewReader(""), &strings.Builder{})
	for _, n := range syntaxNames {
		for _, spec := range []string{"fy", "xfx", "xf"} {
			// (queries, not directives: the prefix operator :- is among the names removed)
			if err := p.QuerySolution(fmt.Sprintf("op(0, %s, (%s)).", spec, jt.Atom(n))).Err(); err != nil {
				return err
			}
		}
	}
	want := map[string]bool{}
	for _, e := range syntaxTable {
		d := e.([]J)
		name, prio, spec := d[0].(string), jt.Int(d[2]), d[3].(string)
		want[fmt.Sprintf("%s %d %s", name, prio, spec)] = true
		if name == "," {
			continue
		}
		if err := p.QuerySolution(fmt.Sprintf("op(%d, %s, (%s)).", prio, spec, jt.Atom(name))).Err(); err != nil {
			return err
		}
	}
	// the table as current_op/3 shows it, restricted to the names of the model, must be the model's table
	names := append([]string{",", "|"}, syntaxNames...)
	got := map[string]bool{}
	for _, n := range names {
		sols, err := p.Query(fmt.Sprintf("current_op(P, S, (%s)).", jt.Atom(n)))
		if err != nil {
			return err
		}
		for sols.Next() {
			var r struct {
				P int
				S string
			}
			if err := sols.Scan(&r); err != nil {
				return err
			}
			got[fmt.Sprintf("%s %d %s", n, r.P, r.S)] = true
		}
		_ = sols.Close()
	}
	if !reflect.DeepEqual(got, want) {
		return fmt.Errorf("operator table of the interpreter %v is not the table of the model %v", got, want)
	}
	syntaxInterp = p
	return nil
}

func syntaxText(toks []J) string {
	var b strings.Builder
	for _, t := range toks {
		tk := t.([]J)
		switch tk[0].(string) {
		case "n":
			b.WriteString(" " + jt.Atom(tk[1].(string)))
		case "i":
			fmt.Fprintf(&b, " %d", jt.Int(tk[1]))
		case "v":
			fmt.Fprintf(&b, " V%d", jt.Int(tk[1]))
		case "p":
			if s := tk[1].(string); s == "(ct" {
				b.WriteString("(")
			} else {
				b.WriteString(" " + s)
			}
		}
	}
	return b.String() + " ."
}

func syntaxHandle(c map[string]J) map[string]J {
	if err := syntaxSetup(); err != nil {
		return map[string]J{"status": "badcase", "what": err.Error()}
	}
	toks := c["toks"].([]J)
	text := syntaxText(toks)
	fmt.Fprintf(os.Stderr, "TEXT %q\n", text)
	parser := engine.NewParser(&syntaxInterp.VM, strings.NewReader(text))
	t, err := parser.Term()
	var observed J
	obs := ""
	if err != nil {
		obs = "syntax error"
	} else {
		bs, _ := json.Marshal(jt.NewCanon(nil).Term(t))
		_ = json.Unmarshal(bs, &observed)
		obs = jt.Render(observed)
	}
	member := func(set J) bool {
		for _, x := range set.([]J) {
			if reflect.DeepEqual(normJ(x), observed) {
				return true
			}
		}
		return false
	}
	render := func(set J) string {
		var ss []string
		for _, x := range set.([]J) {
			ss = append(ss, jt.Render(normJ(x)))
		}
		if len(ss) == 0 {
			return "syntax error"
		}
		return strings.Join(ss, " | ")
	}
	strict, relaxed := c["strict"].([]J), c["relaxed"].([]J)
	input := fmt.Sprintf("table=%s read %q", opt("tabname"), text)
	want := relaxed
	what, sig := "the reader accepts a text in a way the operator table does not license (priority/specifier not honoured)", "syntax:unlicensed"
	if len(strict) > 0 {
		want = strict
		what, sig = "the term read is not the term the table prescribes", "syntax:different"
	}
	switch {
	case len(strict) > 0 && err != nil:
		return map[string]J{"status": "mismatch", "input": input, "what": "text that is valid under the ISO grammar and this table is not read", "expected": render(strict), "observed": obs + ": " + err.Error(), "sig": "syntax:rejected"}
	case err == nil && !member(want):
		if !member(c["loose"]) {
			// not a term of this token sequence under ANY operator table: a misreading that does not involve the table
			// (outside C18); reported as an observation, not judged
			return map[string]J{"status": "ok", "input": input, "nontrivial": false, "observation": fmt.Sprintf("%q read as %s", text, obs)}
		}
		return map[string]J{"status": "mismatch", "input": input, "what": what, "expected": render(want), "observed": obs, "sig": sig}
	}
	return map[string]J{"status": "ok", "input": input, "nontrivial": len(relaxed) > 0}
}

// normJ brings a term as TLC prints it (JSON numbers, tuples as arrays) to the shape jt.Canon produces.
func normJ(x J) J {
	t := x.([]J)
	switch t[0].(string) {
	case "c":
		args := t[2].([]J)
		out := make([]J, len(args))
		for i, a := range args {
			out[i] = normJ(a)
		}
		return []J{"c", t[1], out}
	default:
		return []J{t[0], t[1]}
	}
}
