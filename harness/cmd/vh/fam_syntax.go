package main

// Family "syntax" (C18 reading half, C06 read-back): cases are token sequences from GenSyntax.tla with the sets Strict and
// Relaxed of terms that Syntax.tla (the ISO term grammar over tokens, parametrised by the operator table) gives them.
// The handler writes the tokens as text, brings an interpreter to the same operator table through op/3, reads the text
// with the real parser and checks the reader contract:
//   Strict non-empty  => a term, member of Strict;   otherwise => a syntax error or a member of Relaxed.

import (
	"encoding/json"
	"fmt"
	"math/rand"
	"os"
	"reflect"
	"strconv"
	"strings"

	"github.com/ichiban/prolog"
	"github.com/ichiban/prolog/engine"

	"verifharness/internal/jt"
)

func init() {
	register("syntax", &family{handle: syntaxHandle})
}

// every name that occurs in an alphabet of GenSyntax.tla: their built-in definitions are removed before the table is set up
var syntaxNames = []string{"a", "-", "=", ":-", "fy1", "fx1", "xfx1", "xfy1", "yfx1", "xf1", "yf1", "pp", "hi"}

var (
	syntaxInterp *prolog.Interpreter
	syntaxTable  []J
)

func syntaxSetup() error {
	if syntaxInterp != nil {
		return nil
	}
	if err := json.Unmarshal([]byte(opt("table")), &syntaxTable); err != nil {
		return fmt.Errorf("no table given: %v", err)
	}
	p := prolog.New(strings.NewReader(""), &strings.Builder{})
	for _, n := range syntaxNames {
		for _, spec := range []string{"fy", "xfx", "xf"} {
			// (queries, not directives: the prefix operator :- is among the names removed)
			if err := p.QuerySolution(fmt.Sprintf("op(0, %s, (%s)).", spec, jt.Atom(n))).Err(); err != nil {
				return err
			}
		}
	}
	want := map[string]bool{}
	for _, e := range syntaxTable {
		d := e.([]J)
		name, prio, spec := d[0].(string), jt.Int(d[2]), d[3].(string)
		want[fmt.Sprintf("%s %d %s", name, prio, spec)] = true
		if name == "," {
			continue
		}
		if err := p.QuerySolution(fmt.Sprintf("op(%d, %s, (%s)).", prio, spec, jt.Atom(name))).Err(); err != nil {
			return err
		}
	}
	// the table as current_op/3 shows it, restricted to the names of the model, must be the model's table
	names := append([]string{",", "|"}, syntaxNames...)
	got := map[string]bool{}
	for _, n := range names {
		sols, err := p.Query(fmt.Sprintf("current_op(P, S, (%s)).", jt.Atom(n)))
		if err != nil {
			return err
		}
		for sols.Next() {
			var r struct {
				P int
				S string
			}
			if err := sols.Scan(&r); err != nil {
				return err
			}
			got[fmt.Sprintf("%s %d %s", n, r.P, r.S)] = true
		}
		_ = sols.Close()
	}
	if !reflect.DeepEqual(got, want) {
		return fmt.Errorf("operator table of the interpreter %v is not the table of the model %v", got, want)
	}
	syntaxInterp = p
	return nil
}

func syntaxText(toks []J) string {
	var b strings.Builder
	for _, t := range toks {
		tk := t.([]J)
		switch tk[0].(string) {
		case "n":
			b.WriteString(" " + jt.Atom(tk[1].(string)))
		case "i":
			fmt.Fprintf(&b, " %d", jt.Int(tk[1]))
		case "v":
			fmt.Fprintf(&b, " V%d", jt.Int(tk[1]))
		case "p":
			if s := tk[1].(string); s == "(ct" {
				b.WriteString("(")
			} else {
				b.WriteString(" " + s)
			}
		}
	}
	return b.String() + " ."
}

func syntaxHandle(c map[string]J) map[string]J {
	if err := syntaxSetup(); err != nil {
		return map[string]J{"status": "badcase", "what": err.Error()}
	}
	toks := c["toks"].([]J)
	text := syntaxText(toks)
	fmt.Fprintf(os.Stderr, "TEXT %q\n", text)
	parser := engine.NewParser(&syntaxInterp.VM, strings.NewReader(text))
	t, err := parser.Term()
	var observed J
	obs := ""
	if err != nil {
		obs = "syntax error"
	} else {
		bs, _ := json.Marshal(jt.NewCanon(nil).Term(t))
		_ = json.Unmarshal(bs, &observed)
		obs = jt.Render(observed)
	}
	member := func(set J) bool {
		for _, x := range set.([]J) {
			if reflect.DeepEqual(normJ(x), observed) {
				return true
			}
		}
		return false
	}
	render := func(set J) string {
		var ss []string
		for _, x := range set.([]J) {
			ss = append(ss, jt.Render(normJ(x)))
		}
		if len(ss) == 0 {
			return "syntax error"
		}
		return strings.Join(ss, " | ")
	}
	strict, relaxed := c["strict"].([]J), c["relaxed"].([]J)
	input := fmt.Sprintf("table=%s read %q", opt("tabname"), text)
	want := relaxed
	what, sig := "the reader accepts a text in a way the operator table does not license (priority/specifier not honoured)", "syntax:unlicensed"
	if len(strict) > 0 {
		want = strict
		what, sig = "the term read is not the term the table prescribes", "syntax:different"
	}
	switch {
	case len(strict) > 0 && err != nil:
		return map[string]J{"status": "mismatch", "input": input, "what": "text that is valid under the ISO grammar and this table is not read", "expected": render(strict), "observed": obs + ": " + err.Error(), "sig": "syntax:rejected"}
	case err == nil && !member(want):
		if !member(c["loose"]) {
			// not a term of this token sequence under ANY operator table: a misreading that does not involve the table
			// (outside C18); reported as an observation, not judged
			return map[string]J{"status": "ok", "input": input, "nontrivial": false, "observation": fmt.Sprintf("%q read as %s", text, obs)}
		}
		return map[string]J{"status": "mismatch", "input": input, "what": what, "expected": render(want), "observed": obs, "sig": sig}
	}
	return map[string]J{"status": "ok", "input": input, "nontrivial": len(relaxed) > 0}
}

// normJ brings a term as TLC prints it (JSON numbers, tuples as arrays) to the shape jt.Canon produces.
func normJ(x J) J {
	t := x.([]J)
	switch t[0].(string) {
	case "c":
		args := t[2].([]J)
		out := make([]J, len(args))
		for i, a := range args {
			out[i] = normJ(a)
		}
		return []J{"c", t[1], out}
	default:
		return []J{t[0], t[1]}
	}
}

// Family "writetok" (C06, writer side; "writing uses exactly that table" of C18): a case of RoundTrip.tla is concretised
// as in family "roundtrip", written by the real writer, and the text is cut into tokens by the real lexer (accessor
// engine.VerifTokens). The record (term, the operator definitions of the names that occur, tokens) is validated by TLC
// with SyntaxTrace.tla: the term must be one the ISO grammar gives these tokens under this table.
func init() {
	register("writetok", &family{handle: writetokHandle})
}

func writetokHandle(c map[string]J) map[string]J {
	table, writer := c["table"].(string), c["writer"].(string)
	b := &rtBuilder{r: rand.New(rand.NewSource(caseSeedJ(c, 0)))}
	top := b.term(c["term"].([]J))
	var out strings.Builder
	p := prolog.New(strings.NewReader(""), &out)
	for _, o := range tableOps[table] {
		if sol := p.QuerySolution(o + "."); sol.Err() != nil {
			return map[string]J{"status": "badcase", "detail": o + ": " + sol.Err().Error()}
		}
	}
	q := strings.Join(append(b.goals, "'='(T, "+top+")", writerGoal(writer, "T")), ", ") + " ."
	sols, err := p.Query(q, b.args...)
	if err != nil {
		return map[string]J{"status": "badcase", "detail": err.Error() + " in " + q}
	}
	if !sols.Next() {
		sols.Close()
		return map[string]J{"status": "discard", "why": "term could not be built"}
	}
	var cap struct{ T capture }
	_ = sols.Scan(&cap)
	sols.Close()
	text := out.String()
	input := fmt.Sprintf("table=%s writer=%s written as: %s", table, writer, text)
	vtoks, _ := engine.VerifTokens(strings.NewReader(text + " ."))
	if n := len(vtoks); n == 0 || vtoks[n-1].Kind != "end" {
		return map[string]J{"status": "mismatch", "input": input, "what": "the written text followed by ' .' does not end in an end token", "expected": "tokens ... end", "observed": fmt.Sprint(vtoks), "sig": "C06:tokens"}
	}
	var chars, raw []J
	for _, r := range text + " ." {
		chars = append(chars, string(r))
	}
	for _, t := range vtoks {
		raw = append(raw, []J{t.Kind, t.Val})
	}
	vtoks = vtoks[:len(vtoks)-1]
	if len(vtoks) > 24 {
		return map[string]J{"status": "discard", "why": "more than 24 tokens"}
	}
	var toks []J
	names := map[string]bool{",": true, "|": true}
	vars := map[string]int{}
	punct := map[string]string{"open": "(", "open ct": "(ct", "close": ")", "open list": "[", "close list": "]", "open curly": "{", "close curly": "}", "bar": "|", "comma": ","}
	for _, t := range vtoks {
		switch t.Kind {
		case "letter digit", "graphic", "semicolon", "cut":
			toks = append(toks, []J{"n", t.Val})
			names[t.Val] = true
		case "quoted":
			// the name a quoted token denotes is taken from the real reader (quoting is the business of the round-trip law)
			a, err := engine.NewParser(&p.VM, strings.NewReader(t.Val+" .")).Term()
			at, ok := a.(engine.Atom)
			if err != nil || !ok {
				return map[string]J{"status": "discard", "why": "quoted token not readable on its own"}
			}
			toks = append(toks, []J{"n", at.String()})
			names[at.String()] = true
		case "variable":
			if _, ok := vars[t.Val]; !ok {
				vars[t.Val] = len(vars) + 1
			}
			toks = append(toks, []J{"v", vars[t.Val]})
		case "integer":
			// decimal digits only (the magnitude of the least integer does not fit an int64: kept as text)
			if strings.Trim(t.Val, "0123456789") != "" {
				return map[string]J{"status": "discard", "why": "integer token not in decimal notation"}
			}
			d := strings.TrimLeft(t.Val, "0")
			if d == "" {
				d = "0"
			}
			toks = append(toks, []J{"num", d})
		case "float number":
			f, err := strconv.ParseFloat(t.Val, 64)
			if err != nil {
				return map[string]J{"status": "discard", "why": "float token not parsable"}
			}
			toks = append(toks, []J{"num", strconv.FormatFloat(f, 'g', -1, 64)})
		default:
			s, ok := punct[t.Kind]
			if !ok {
				return map[string]J{"status": "discard", "why": "token kind outside the grammar: " + t.Kind}
			}
			toks = append(toks, []J{"p", s})
		}
	}
	// the operator definitions of the names that occur
	var tab []J
	class := map[string]string{"fy": "pre", "fx": "pre", "xfx": "inf", "xfy": "inf", "yfx": "inf", "xf": "post", "yf": "post"}
	ops, err := p.Query("current_op(P, S, N).")
	if err != nil {
		return map[string]J{"status": "badcase", "detail": err.Error()}
	}
	for ops.Next() {
		var r struct {
			P int
			S string
			N string
		}
		if err := ops.Scan(&r); err != nil {
			continue
		}
		if names[r.N] {
			tab = append(tab, []J{r.N, class[r.S], r.P, r.S})
		}
	}
	_ = ops.Close()
	varIDs := map[engine.Variable]int{}
	term := syntaxEnc(cap.T.term, cap.T.env, varIDs)
	return map[string]J{"status": "recorded", "input": input, "events": []J{map[string]J{"ev": "written", "term": term, "table": tab, "toks": toks, "text": text, "chars": chars, "raw": raw}}}
}

// syntaxEnc encodes a term the way Syntax.tla writes terms (numbers by their canonical text).
func syntaxEnc(t engine.Term, env *engine.Env, ids map[engine.Variable]int) J {
	switch t := env.Resolve(t).(type) {
	case engine.Variable:
		if _, ok := ids[t]; !ok {
			ids[t] = len(ids) + 1
		}
		return []J{"v", ids[t]}
	case engine.Atom:
		return []J{"a", t.String()}
	case engine.Integer:
		return []J{"num", strconv.FormatInt(int64(t), 10)}
	case engine.Float:
		return []J{"num", strconv.FormatFloat(float64(t), 'g', -1, 64)}
	case engine.Compound:
		args := make([]J, t.Arity())
		for i := range args {
			args[i] = syntaxEnc(t.Arg(i), env, ids)
		}
		return []J{"c", t.Functor().String(), args}
	}
	return []J{"a", fmt.Sprintf("$%T", t)}
}
