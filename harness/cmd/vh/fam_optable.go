package main

// Family "optable" (C18): cases are transitions of OpTable.tla: a start table over the tracked names, a sequence of
// op/3 calls with, for each, the set of errors ISO allows and the table afterwards. The handler brings a fresh
// interpreter to the start table with a canonical op/3 sequence (verified through current_op/3), performs each call
// and compares: success vs. error, the table as seen by current_op/3 (all instantiation patterns), the untouched rest
// of the operator table, and that reading and writing use exactly that table.

import (
	"encoding/json"
	"fmt"
	"hash/crc32"
	"sort"
	"strconv"
	"strings"

	"github.com/ichiban/prolog"

	"verifharness/internal/jt"
)

func init() {
	register("optable", &family{handle: optableHandle})
}

var opTracked = []string{"a", "b", ",", "|", "[]", "{}"}

func opAtomText(n string) string {
	switch n {
	case "[]", "{}", ",", "|":
		return "'" + n + "'"
	}
	return n
}

func opPrio(p []J) string {
	switch p[0].(string) {
	case "int":
		return "(" + strconv.Itoa(jt.Int(p[1])) + ")"
	case "var":
		return "_"
	}
	return "foo"
}

func opSpec(s []J) string {
	switch s[0].(string) {
	case "atom":
		return s[1].(string)
	case "var":
		return "_"
	}
	return "1"
}

func opElem(e []J) string {
	switch e[0].(string) {
	case "atom":
		return opAtomText(e[1].(string))
	case "var":
		return "_"
	}
	return "1"
}

func opArg(o []J) string {
	switch o[0].(string) {
	case "atom":
		return opAtomText(o[1].(string))
	case "var":
		return "_"
	case "int":
		return "1"
	}
	var es []string
	for _, e := range o[1].([]J) {
		es = append(es, opElem(e.([]J)))
	}
	tail := ""
	switch o[2].(string) {
	case "var":
		tail = "|_"
	case "atom":
		tail = "|foo"
	}
	return "[" + strings.Join(es, ",") + tail + "]"
}

type opEntry struct {
	name, spec string
	prio       int
}

func (e opEntry) String() string { return fmt.Sprintf("%s/%d/%s", e.name, e.prio, e.spec) }

func opEntries(t J) []opEntry {
	var out []opEntry
	for _, x := range t.([]J) {
		e := x.([]J)
		out = append(out, opEntry{name: e[0].(string), prio: jt.Int(e[2]), spec: e[3].(string)})
	}
	return out
}

func entryStrings(es []opEntry) []string {
	out := []string{}
	for _, e := range es {
		out = append(out, e.String())
	}
	sort.Strings(out)
	return out
}

// queryRows runs a query and returns rows "N/P/S" for the variables N, P, S (those bound in the query text are given).
func opQuery(p *prolog.Interpreter, q string) ([]string, error) {
	sols, err := p.Query(q)
	if err != nil {
		return nil, err
	}
	defer sols.Close()
	rows := []string{}
	for sols.Next() {
		var r struct {
			N string
			P int
			S string
		}
		if err := sols.Scan(&r); err != nil {
			return nil, err
		}
		rows = append(rows, fmt.Sprintf("%s/%d/%s", r.N, r.P, r.S))
	}
	sort.Strings(rows)
	return rows, sols.Err()
}

func isTracked(n string) bool {
	for _, t := range opTracked {
		if t == n {
			return true
		}
	}
	return false
}

// fullTable lists every operator; tracked names and the rest are returned separately.
func fullTable(p *prolog.Interpreter) (tracked, rest []string, err error) {
	sols, err := p.Query("findall(N/P/S, current_op(P, S, N), L).")
	if err != nil {
		return nil, nil, err
	}
	defer sols.Close()
	if !sols.Next() {
		return nil, nil, fmt.Errorf("findall over current_op/3 failed: %v", sols.Err())
	}
	var r struct{ L capture }
	if err := sols.Scan(&r); err != nil {
		return nil, nil, err
	}
	tracked, rest = []string{}, []string{}
	l := jt.NewCanon(r.L.env).Term(r.L.term)
	for {
		a := l.([]J)
		if a[0] != "c" || a[1] != "." {
			break
		}
		args := a[2].([]J)
		e := args[0].([]J)[2].([]J) // '/'('/'(N,P),S)
		np := e[0].([]J)[2].([]J)
		name := np[0].([]J)[1].(string)
		row := fmt.Sprintf("%s/%d/%s", name, jt.Int(np[1].([]J)[1]), e[1].([]J)[1].(string))
		if isTracked(name) {
			tracked = append(tracked, row)
		} else {
			rest = append(rest, row)
		}
		l = args[1]
	}
	sort.Strings(tracked)
	sort.Strings(rest)
	return
}

func opClass(spec string) string {
	switch spec {
	case "fx", "fy":
		return "pre"
	case "xf", "yf":
		return "post"
	}
	return "inf"
}

func errClass(e string) string {
	i := strings.Index(e, "(")
	if i < 0 {
		return e
	}
	args := strings.Split(strings.TrimSuffix(e[i+1:], ")"), ",")
	switch e[:i] {
	case "type_error", "domain_error":
		return e[:i] + "(" + args[0] + ")"
	case "permission_error":
		if len(args) >= 2 {
			return e[:i] + "(" + args[0] + "," + args[1] + ")"
		}
	}
	return e
}

// One interpreter is reused for consecutive cases with the same start table as long as no call changed the table:
// a failed op/3 call that damaged hidden state then shows in the cases that follow. A mismatch on a reused interpreter
// is re-run on a fresh one so that the report names the shortest history.
var opCache struct {
	key  string
	p    *prolog.Interpreter
	log  []string
	rest []string
}

func optableHandle(c map[string]J) map[string]J {
	kb, _ := json.Marshal(c["tab"])
	reused := opCache.p != nil && opCache.key == string(kb)
	res := optableRun(c, reused)
	if res["status"] != "ok" && reused {
		opCache.p = nil
		fresh := optableRun(c, false)
		if fresh["status"] == "ok" {
			res["what"] = fmt.Sprint(res["what"], " (only after the earlier calls on the same interpreter)")
			return res
		}
		return fresh
	}
	return res
}

func optableRun(c map[string]J, reuse bool) map[string]J {
	var log []string
	fail := func(what string, exp, obs J) map[string]J {
		opCache.p = nil
		return map[string]J{"status": "mismatch", "input": strings.Join(log, " "), "what": what, "expected": exp, "observed": obs}
	}
	var p *prolog.Interpreter
	var rest0 []string
	if reuse {
		p, log, rest0 = opCache.p, opCache.log, opCache.rest
	} else {
		p = prolog.New(strings.NewReader(""), &strings.Builder{})
		var err error
		_, rest0, err = fullTable(p)
		if err != nil {
			return fail("current_op on a fresh interpreter", nil, err.Error())
		}
	}
	exec := func(q string) (string, error) { // "ok" | "fail" | error term text
		sols, err := p.Query(q)
		if err != nil {
			return "", err
		}
		defer sols.Close()
		if !sols.Next() {
			if sols.Err() != nil {
				return "uncaught:" + sols.Err().Error(), nil
			}
			return "fail", nil
		}
		var r struct{ E prolog.TermString }
		if err := sols.Scan(&r); err != nil {
			return "", err
		}
		if strings.HasPrefix(string(r.E), "_") {
			return "ok", nil
		}
		return string(r.E), nil
	}
	// canonical sequence to the start table
	start := opEntries(c["tab"])
	if !reuse {
		hasBar := false
		for _, e := range start {
			if e.name == "|" {
				hasBar = true
			}
		}
		if !hasBar {
			q := "catch(op(0, xfy, '|'), error(E, _), true)."
			log = append(log, "?- "+q)
			if r, err := exec(q); err != nil || r != "ok" {
				return fail("setting up the start table", "ok", fmt.Sprint(r, err))
			}
		}
		for _, e := range start {
			if e.name == "," {
				continue
			}
			q := fmt.Sprintf("catch(op(%d, %s, %s), error(E, _), true).", e.prio, e.spec, opAtomText(e.name))
			log = append(log, "?- "+q)
			if r, err := exec(q); err != nil || r != "ok" {
				return fail("setting up the start table", "ok", fmt.Sprint(r, err))
			}
		}
		if got, _, err := fullTable(p); err != nil || strings.Join(got, " ") != strings.Join(entryStrings(start), " ") {
			return fail("start table as seen by current_op/3", entryStrings(start), fmt.Sprint(got, err))
		}
	}
	drift := []string{}
	prev := entryStrings(start)
	calls, ok := c["calls"].([]J)
	if !ok {
		calls = []J{map[string]J{"p": c["p"], "s": c["s"], "o": c["o"], "errs": c["errs"], "after": c["after"]}}
	}
	for _, x := range calls {
		call := x.(map[string]J)
		q := fmt.Sprintf("catch(op(%s, %s, %s), error(E, _), true).", opPrio(call["p"].([]J)), opSpec(call["s"].([]J)), opArg(call["o"].([]J)))
		log = append(log, "?- "+q)
		got, err := exec(q)
		if err != nil {
			return fail("op/3 call could not be run", nil, err.Error())
		}
		var allowed []string
		for _, e := range call["errs"].([]J) {
			allowed = append(allowed, e.(string))
		}
		sort.Strings(allowed)
		if (len(allowed) == 0) != (got == "ok") {
			return fail("success/error of op/3", map[string]J{"allowed_errors": allowed}, got)
		}
		if got != "ok" {
			cls := errClass(got)
			in := false
			for _, a := range allowed {
				if a == cls {
					in = true
				}
			}
			if !in {
				drift = append(drift, fmt.Sprintf("%s raised %s, ISO allows %v", q, cls, allowed))
			}
		}
		after := opEntries(call["after"])
		want := entryStrings(after)
		tracked, rest, err := fullTable(p)
		if err != nil {
			return fail("current_op/3 after the call", want, err.Error())
		}
		if strings.Join(tracked, " ") != strings.Join(want, " ") {
			return fail("operator table after the call (current_op(P,S,N) restricted to the tracked names)", want, tracked)
		}
		if strings.Join(rest, " ") != strings.Join(rest0, " ") {
			return fail("operators of other names changed", rest0, rest)
		}
		// The deeper probes (every pattern of current_op/3, read/write) run whenever the call changed the table and on a
		// deterministic 1-in-8 sample of the calls that must leave it unchanged (for those the listing above already
		// shows that nothing changed).
		if strings.Join(want, " ") == strings.Join(prev, " ") && crc32.ChecksumIEEE([]byte(q+strings.Join(want, " ")))%8 != 0 {
			continue
		}
		prev = want
		// every instantiation pattern of current_op/3, for each entry and one non-entry
		probes := append([]opEntry{}, after...)
		probes = append(probes, opEntry{name: "b", prio: 123, spec: "xfx"}, opEntry{name: "a", prio: 200, spec: "yf"})
		for _, e := range probes {
			for mask := 1; mask < 8; mask++ {
				pa, sa, na := "P", "S", "N"
				if mask&1 != 0 {
					pa = strconv.Itoa(e.prio)
				}
				if mask&2 != 0 {
					sa = e.spec
				}
				if mask&4 != 0 {
					na = opAtomText(e.name)
				}
				q := fmt.Sprintf("current_op(%s, %s, %s), P = %s, S = %s, N = (%s).", pa, sa, na, pa, sa, na)
				rows, err := opQuery(p, q)
				if err != nil {
					return fail("current_op/3 pattern "+q, nil, err.Error())
				}
				var gotRows []string
				for _, r := range rows {
					if isTracked(r[:strings.Index(r, "/")]) {
						gotRows = append(gotRows, r)
					}
				}
				var wantRows []string
				for _, a := range after {
					if (mask&1 == 0 || a.prio == e.prio) && (mask&2 == 0 || a.spec == e.spec) && (mask&4 == 0 || a.name == e.name) {
						wantRows = append(wantRows, a.String())
					}
				}
				sort.Strings(wantRows)
				if strings.Join(gotRows, " ") != strings.Join(wantRows, " ") {
					log = append(log, "?- "+q)
					return fail("current_op/3 answers for an instantiation pattern", wantRows, gotRows)
				}
			}
		}
		// reading and writing use exactly that table
		for _, n := range []string{"a", "b", "|"} {
			def := map[string]bool{}
			for _, a := range after {
				if a.name == n {
					def[opClass(a.spec)] = true
				}
			}
			type probe struct {
				text, class, canon string
			}
			nt := n
			ps := []probe{{"(1 " + nt + " 2)", "inf", opAtomText(n) + "(1,2)"}}
			if n != "|" {
				ps = append(ps, probe{"(" + nt + " 1)", "pre", n + "(1)"}, probe{"(1 " + nt + ")", "post", n + "(1)"})
			}
			for _, pr := range ps {
				q := fmt.Sprintf("T = %s, T == %s.", pr.text, pr.canon)
				sols, err := p.Query(q)
				parsed := err == nil
				if parsed {
					ok := sols.Next()
					sols.Close()
					if !ok {
						log = append(log, "?- "+q)
						return fail("operator text read as a different term", "true", "false")
					}
				}
				if parsed != def[pr.class] {
					log = append(log, "?- "+q)
					return fail("reading does not use the table: "+pr.class+" operator "+n, fmt.Sprintf("parses=%v", def[pr.class]), fmt.Sprintf("parses=%v (%v)", parsed, err))
				}
			}
			if n == "|" {
				continue
			}
			// an atom is an operator - and as such no operand (6.3.1.3) and bracketed when written as one - iff the table says so
			anyDef := len(def) > 0
			{
				q := fmt.Sprintf("T = (- %s).", nt)
				sols, err := p.Query(q)
				if err == nil {
					sols.Close()
				}
				if (err == nil) == anyDef {
					log = append(log, "?- "+q)
					return fail("reading does not use the table: "+n+" as an operand", fmt.Sprintf("parses=%v", !anyDef), fmt.Sprintf("parses=%v (%v)", err == nil, err))
				}
				var sb strings.Builder
				p.SetUserOutput(engineStream(&sb))
				sols, err = p.Query(fmt.Sprintf("T =.. [-, %s], writeq(T).", nt))
				if err != nil {
					return fail("writeq probe", nil, err.Error())
				}
				sols.Next()
				sols.Close()
				if plain := sb.String() == "-"+nt; plain == anyDef {
					log = append(log, fmt.Sprintf("?- T =.. [-, %s], writeq(T).", nt))
					return fail("writing does not use the table: "+n+" as an operand", fmt.Sprintf("written as -%s: %v", nt, !anyDef), sb.String())
				}
			}
			// writing: operator notation iff defined
			for _, w := range []struct {
				term    string
				classes []string
			}{{n + "(1,2)", []string{"inf"}}, {n + "(1)", []string{"pre", "post"}}} {
				var sb strings.Builder
				p.SetUserOutput(engineStream(&sb))
				sols, err := p.Query(fmt.Sprintf("writeq(%s).", w.term))
				if err != nil {
					return fail("writeq probe", nil, err.Error())
				}
				sols.Next()
				sols.Close()
				asOp := sb.String() != w.term
				want := false
				for _, cl := range w.classes {
					want = want || def[cl]
				}
				if asOp != want {
					log = append(log, "?- writeq("+w.term+").")
					return fail("writing does not use the table", fmt.Sprintf("operator notation=%v", want), sb.String())
				}
			}
		}
	}
	kb, _ := json.Marshal(c["tab"])
	if strings.Join(prev, " ") == strings.Join(entryStrings(start), " ") && len(log) < 4000 {
		opCache.key, opCache.p, opCache.log, opCache.rest = string(kb), p, log, rest0
	} else {
		opCache.p = nil
	}
	shown := log
	if len(shown) > 12 {
		shown = append([]string{fmt.Sprintf("(%d earlier calls on this interpreter left the table unchanged)", len(log)-12)}, log[len(log)-12:]...)
	}
	res := map[string]J{"status": "ok", "input": strings.Join(shown, " ")}
	if len(drift) > 0 {
		res["drift"] = drift
	}
	return res
}
