package main

// Families for C14.
//
// "isovm": cases are histories of IsolationVM.tla: state-changing directives on interpreters A and B, then the
// observation of every per-interpreter field on both. A field must show the mutation iff that interpreter performed
// it; "init" is what a third, untouched control interpreter shows. The history is executed twice: sequentially and
// with A's and B's directives running concurrently in two goroutines.
//
// "isoconc": N interpreters run generated programs concurrently (creation, loading, querying, atom and variable
// creation, writing); each answer sequence must equal that of the same program run alone. The hook inside NewAtom's
// critical section logs every interned atom; the log is returned as a trace for IsolationTrace.tla.
//
// Both are meant to run in a harness built with -race (GORACE=halt_on_error=1 turns a race report into a dead worker).

import (
	"context"
	"fmt"
	"os"
	"path/filepath"
	"reflect"
	"sort"
	"strings"
	"sync"
	"time"

	"github.com/ichiban/prolog"
	"github.com/ichiban/prolog/engine"

	"verifharness/internal/jt"
)

func init() {
	register("isovm", &family{handle: isovmHandle})
	register("isoconc", &family{handle: isoconcHandle, gen: isoconcGen})
}

type isoField struct {
	name    string
	mutate  func(p *prolog.Interpreter, dir, who string) error
	observe string // a query binding V
	mutated string // what V shows after the mutation ("" = anything different from the control value)
}

func isoExec(q string) func(p *prolog.Interpreter, dir, who string) error {
	return func(p *prolog.Interpreter, dir, who string) error {
		sol := p.QuerySolution(strings.ReplaceAll(strings.ReplaceAll(q, "@DIR@", dir), "@WHO@", who))
		return sol.Err()
	}
}

var isoFields = []isoField{
	{"clauses", isoExec("(catch(foo(1), _, fail) -> true ; assertz(foo(1)))."), "(current_predicate(foo/1) -> findall(X, foo(X), V) ; V = none).", "[1]"},
	{"consulted", func(p *prolog.Interpreter, _, _ string) error { return p.Exec("bar(1). bar(2).") }, "(current_predicate(bar/1) -> findall(X, bar(X), V) ; V = none).", "[1,2]"},
	{"dynamic", func(p *prolog.Interpreter, _, _ string) error { return p.Exec(":- dynamic(baz/1).") }, "(current_predicate(baz/1) -> findall(X, baz(X), V) ; V = none).", "[]"},
	{"ops", isoExec("op(700, xfx, ===)."), "findall(P-T, current_op(P, T, ===), V).", "[700-xfx]"},
	{"double_quotes", isoExec("set_prolog_flag(double_quotes, atom)."), "current_prolog_flag(double_quotes, V).", "atom"},
	{"unknown", isoExec("set_prolog_flag(unknown, fail)."), "current_prolog_flag(unknown, V).", "fail"},
	{"debug", isoExec("set_prolog_flag(debug, on)."), "current_prolog_flag(debug, V).", "on"},
	{"char_conv_flag", isoExec("set_prolog_flag(char_conversion, on)."), "current_prolog_flag(char_conversion, V).", "on"},
	{"char_conv", isoExec("char_conversion(a, b)."), "findall(X, current_char_conversion(a, X), V).", "[b]"},
	{"alias", isoExec("(catch(stream_property(_, alias(out1)), _, fail) -> true ; open('@DIR@/iso-@WHO@-alias.txt', write, _, [alias(out1)]))."), "(catch(stream_property(_, alias(out1)), _, fail) -> V = yes ; V = no).", "yes"},
	{"output", isoExec("open('@DIR@/iso-@WHO@-out.txt', write, S), set_output(S)."), "current_output(S), (stream_property(S, alias(A)) -> V = A ; V = none).", "none"},
	{"input", isoExec("open('@DIR@/iso-in.txt', read, S), set_input(S)."), "current_input(S), (stream_property(S, alias(A)) -> V = A ; V = none).", "none"},
	{"std_input", isoExec("catch(close(user_input), _, true)."), "(catch(stream_property(_, alias(user_input)), _, fail) -> V = yes ; V = no).", "no"},
	// the same query TEXT is given to every interpreter; how it reads depends on the interpreter's own operator table / flag
	// (for an interpreter without the operator the text does not parse: the observation is the error)
	{"ops_read", isoExec("op(700, xfx, =#=)."), "T = (a =#= b), V = parsed.", "parsed"},
}

// a second observation of a field, through the reader
var isoObserveAlso = map[string]isoField{
	"double_quotes": {"double_quotes (as the reader applies it)", nil, "X = \"abc\", (atom(X) -> V = atom ; V = other).", "atom"},
}

func isoObserve(p *prolog.Interpreter, f isoField) string {
	sols, err := p.Query(f.observe)
	if err != nil {
		return "query error: " + err.Error()
	}
	defer sols.Close()
	if !sols.Next() {
		return fmt.Sprint("no answer: ", sols.Err())
	}
	var r struct{ V prolog.TermString }
	if err := sols.Scan(&r); err != nil {
		return "scan error: " + err.Error()
	}
	return string(r.V)
}

func isovmHandle(c map[string]J) map[string]J {
	dir := opt("tmp")
	if dir == "" {
		dir = os.TempDir()
	}
	dir = filepath.Join(dir, fmt.Sprintf("iso-%d", os.Getpid()))
	_ = os.MkdirAll(dir, 0o755)
	defer os.RemoveAll(dir)
	_ = os.WriteFile(filepath.Join(dir, "iso-in.txt"), []byte("hello.\n"), 0o644)
	field := map[string]isoField{}
	for _, f := range isoFields {
		field[f.name] = f
	}
	hist := c["hist"].([]J)
	sees := c["sees"].(map[string]J)
	var desc []string
	enums := false
	for _, h := range hist {
		m := h.(map[string]J)
		if e, ok := m["enum"].(string); ok {
			enums = true
			desc = append(desc, fmt.Sprintf("%s:%s(%s)", m["vm"], m["phase"], e))
			continue
		}
		desc = append(desc, fmt.Sprintf("%s:%s", m["vm"], m["field"]))
	}
	input := "mutations " + strings.Join(desc, ", ")
	if enums {
		return isoEnumHistory(hist, field, dir, input)
	}
	// third mode: interpreters created WITHOUT a reader and a writer (New(nil, nil)) - their standard streams must be their own, too
	for _, mode := range []string{"sequential", "concurrent", "sequential, interpreters created with New(nil, nil)"} {
		nilIO := strings.Contains(mode, "nil")
		outs := map[string]*strings.Builder{"A": {}, "B": {}, "C": {}}
		vms := map[string]*prolog.Interpreter{}
		for _, n := range []string{"A", "B", "C"} {
			if nilIO {
				vms[n] = prolog.New(nil, nil)
			} else {
				vms[n] = prolog.New(strings.NewReader(""), outs[n])
			}
		}
		run := func(who string) error {
			for _, h := range hist {
				m := h.(map[string]J)
				if m["vm"].(string) != who {
					continue
				}
				if err := field[m["field"].(string)].mutate(vms[who], dir, who); err != nil {
					return fmt.Errorf("mutator %s on %s: %v", m["field"], who, err)
				}
			}
			return nil
		}
		var errA, errB error
		if mode != "concurrent" {
			// in history order
			for _, h := range hist {
				m := h.(map[string]J)
				who := m["vm"].(string)
				if err := field[m["field"].(string)].mutate(vms[who], dir, who); err != nil {
					errA = fmt.Errorf("mutator %s on %s: %v", m["field"], who, err)
				}
			}
		} else {
			var wg sync.WaitGroup
			wg.Add(2)
			go func() { defer wg.Done(); errA = run("A") }()
			go func() { defer wg.Done(); errB = run("B") }()
			wg.Wait()
		}
		if errA != nil || errB != nil {
			return map[string]J{"status": "mismatch", "input": input + " (" + mode + ")", "what": "a state-changing directive failed", "expected": "success", "observed": fmt.Sprint(errA, " ", errB)}
		}
		// in the concurrent mode the two interpreters are also OBSERVED at the same time (under the race detector): reading the
		// state of one interpreter must not touch anything the other one reads or writes
		conc := map[string]map[string]string{"A": {}, "B": {}}
		if mode == "concurrent" {
			var wg sync.WaitGroup
			for _, who := range []string{"A", "B"} {
				wg.Add(1)
				go func(who string) {
					defer wg.Done()
					for _, f := range isoFields {
						conc[who][f.name] = isoObserve(vms[who], f)
					}
				}(who)
			}
			wg.Wait()
		}
		fields := append([]isoField{}, isoFields...)
		for _, f := range isoFields {
			if g, ok := isoObserveAlso[f.name]; ok {
				fields = append(fields, g)
			}
		}
		for _, f := range fields {
			control := isoObserve(vms["C"], f)
			for _, who := range []string{"A", "B"} {
				got := isoObserve(vms[who], f)
				if g, ok := conc[who][f.name]; ok && g != got {
					return map[string]J{"status": "mismatch", "input": input + " (" + mode + ")", "what": fmt.Sprintf("field %s of interpreter %s observed while the other interpreter was being observed", f.name, who),
						"expected": got, "observed": g}
				}
				want := control
				if sees[who].(map[string]J)[strings.SplitN(f.name, " ", 2)[0]] == "mut" {
					want = f.mutated
				}
				if got != want {
					return map[string]J{"status": "mismatch", "input": input + " (" + mode + ")", "what": fmt.Sprintf("field %s observed on interpreter %s", f.name, who),
						"expected": want, "observed": got}
				}
			}
		}
		// output goes to the interpreter's own sink
		for _, who := range []string{"A", "B"} {
			if nilIO {
				break // nothing can be written without a writer
			}
			redirected := sees[who].(map[string]J)["output"] == "mut"
			_ = vms[who].QuerySolution("write(" + strings.ToLower(who) + "x).").Err()
			got := outs[who].String()
			if redirected {
				if got != "" {
					return map[string]J{"status": "mismatch", "input": input + " (" + mode + ")", "what": "output of " + who + " after set_output", "expected": "", "observed": got}
				}
			} else if got != strings.ToLower(who)+"x" {
				return map[string]J{"status": "mismatch", "input": input + " (" + mode + ")", "what": "user_output of " + who, "expected": strings.ToLower(who) + "x", "observed": got}
			}
		}
		for _, who := range []string{"A", "B"} {
			_ = vms[who].QuerySolution("catch(close(out1), _, true).").Err()
		}
	}
	return map[string]J{"status": "ok", "input": input}
}

// isoEnumHistory runs a history with open enumerations (IsolationEnum.tla): the interleaving is executed on A and B in one
// goroutine; what each enumeration delivered must be what the same interpreter delivers when it performs its own steps alone.
var isoEnumQuery = map[string]string{"flags": "current_prolog_flag(F, V).", "ops": "current_op(P, T, N).", "preds": "current_predicate(X)."}

func isoEnumHistory(hist []J, field map[string]isoField, dir, input string) map[string]J {
	answersOf := func(only string) (map[string][]string, error) {
		vms := map[string]*prolog.Interpreter{}
		for _, n := range []string{"A", "B"} {
			vms[n] = prolog.New(strings.NewReader(""), &strings.Builder{})
		}
		open := map[string]*prolog.Solutions{}
		got := map[string][]string{}
		take := func(who string, all bool) error {
			s := open[who]
			for s.Next() {
				m := map[string]prolog.TermString{}
				if err := s.Scan(m); err != nil {
					return err
				}
				var keys []string
				for k := range m {
					keys = append(keys, k)
				}
				sort.Strings(keys)
				var parts []string
				for _, k := range keys {
					parts = append(parts, k+"="+string(m[k]))
				}
				got[who] = append(got[who], strings.Join(parts, " "))
				if !all {
					return nil
				}
			}
			return s.Err()
		}
		for _, h := range hist {
			m := h.(map[string]J)
			who := m["vm"].(string)
			if only != "" && who != only {
				continue
			}
			e, isEnum := m["enum"].(string)
			switch {
			case !isEnum:
				if err := field[m["field"].(string)].mutate(vms[who], dir, who); err != nil {
					return nil, fmt.Errorf("mutator %s on %s: %v", m["field"], who, err)
				}
			case m["phase"] == "open":
				s, err := vms[who].Query(isoEnumQuery[e])
				if err != nil {
					return nil, err
				}
				open[who] = s
				got[who] = append(got[who], "-- "+e)
				if err := take(who, false); err != nil {
					return nil, err
				}
			default:
				if err := take(who, true); err != nil {
					return nil, err
				}
				_ = open[who].Close()
			}
		}
		return got, nil
	}
	inter, err := answersOf("")
	if err != nil {
		return map[string]J{"status": "mismatch", "input": input, "what": "a step of the history failed", "expected": "success", "observed": err.Error()}
	}
	for _, who := range []string{"A", "B"} {
		alone, err := answersOf(who)
		if err != nil {
			return map[string]J{"status": "mismatch", "input": input, "what": "a step of the history failed (interpreter alone)", "expected": "success", "observed": err.Error()}
		}
		// (the order of the answers of these enumerations is that of a Go map: compared as multisets)
		sort.Strings(inter[who])
		sort.Strings(alone[who])
		if !reflect.DeepEqual(inter[who], alone[who]) {
			return map[string]J{"status": "mismatch", "input": input, "what": "answers of the enumerations of interpreter " + who + " (interleaved with the other interpreter vs alone)",
				"expected": strings.Join(alone[who], " | "), "observed": strings.Join(inter[who], " | ")}
		}
	}
	return map[string]J{"status": "ok", "input": input}
}

// ----------------------------------------------------------------------------------------------

var isoSeq int

type isoRun struct {
	answers []string
	end     string
}

func isoRunProgram(c map[string]J, out *strings.Builder) (isoRun, error) {
	db, _ := c["db"].([]J)
	prog, _ := engineProgram(db)
	qv := jt.Int(c["qv"])
	p := prolog.New(strings.NewReader(""), out)
	if err := p.Exec(prog); err != nil {
		return isoRun{}, err
	}
	ctx, cancel := context.WithTimeout(context.Background(), wd(5*time.Second))
	defer cancel()
	sols, err := p.QueryContext(ctx, jt.Render(c["query"])+".")
	if err != nil {
		return isoRun{}, err
	}
	var r isoRun
	for n := 0; n < 6 && sols.Next(); n++ {
		got := map[string]capture{}
		if err := sols.Scan(got); err != nil {
			return r, err
		}
		cn := jt.NewCanon(nil)
		var b []string
		for i := 1; i <= qv; i++ {
			if cv, ok := got[fmt.Sprintf("V%d", i)]; ok {
				cn.Env = cv.env
				b = append(b, fmt.Sprint(cn.Term(cv.term)))
			}
		}
		if cn.Cyclic || cn.TooBig {
			r.end = "skip"
			_ = sols.Close()
			return r, nil
		}
		r.answers = append(r.answers, strings.Join(b, ";"))
	}
	switch e := sols.Err(); {
	case e == nil:
		r.end = "ok"
	case ctx.Err() != nil:
		r.end = "skip" // ran into the time limit: not comparable
	default:
		if ex, ok := e.(engine.Exception); ok {
			r.end = fmt.Sprint(jt.NewCanon(nil).Term(ex.Term()))
		} else {
			r.end = e.Error()
		}
	}
	_ = sols.Close()
	return r, nil
}

func isoconcHandle(c map[string]J) map[string]J {
	progs := c["progs"].([]J)
	var texts []string
	// alone, one after the other
	alone := make([]isoRun, len(progs))
	aloneOut := make([]string, len(progs))
	for i, p := range progs {
		var out strings.Builder
		r, err := isoRunProgram(p.(map[string]J), &out)
		if err != nil {
			return map[string]J{"status": "discard", "why": "program did not load: " + err.Error()}
		}
		alone[i], aloneOut[i] = r, out.String()
		db, _ := p.(map[string]J)["db"].([]J)
		t, _ := engineProgram(db)
		texts = append(texts, t+"?- "+jt.Render(p.(map[string]J)["query"]))
	}
	input := strings.Join(texts, "\n=====\n")
	// together
	var mu sync.Mutex
	var log []map[string]J
	_, names0 := engine.VerifAtomTable()
	engine.VerifHooks.OnIntern = func(name string, a engine.Atom, n int) {
		// called inside NewAtom's critical section: the table lock orders these appends
		log = append(log, map[string]J{"ev": "intern", "name": name, "id": float64(a), "n": float64(n)})
	}
	conc := make([]isoRun, len(progs))
	concOut := make([]strings.Builder, len(progs))
	// every goroutine also interns the same batch of fresh names at the same time (released by a barrier) and reads
	// them back: the same name must give the same atom everywhere (Interned), and its text must be the name (NoTornRead)
	isoSeq++
	const nShared = 48
	shared := make([][]engine.Atom, len(progs))
	torn := make([]string, len(progs))
	barrier := make(chan struct{})
	var wg sync.WaitGroup
	for i, p := range progs {
		wg.Add(1)
		go func(i int, p map[string]J) {
			defer wg.Done()
			<-barrier
			shared[i] = make([]engine.Atom, nShared)
			for k := 0; k < nShared; k++ {
				name := fmt.Sprintf("shared_%d_%d_%d", os.Getpid(), isoSeq, k)
				a := engine.NewAtom(name)
				shared[i][k] = a
				if got := a.String(); got != name {
					torn[i] = fmt.Sprintf("NewAtom(%q).String() = %q", name, got)
				}
				// the standard order of atoms reads the table, too, while the other goroutines write it
				if k > 0 {
					prev := fmt.Sprintf("shared_%d_%d_%d", os.Getpid(), isoSeq, k-1)
					if got, want := a.Compare(shared[i][k-1], nil), strings.Compare(name, prev); got != want {
						torn[i] = fmt.Sprintf("NewAtom(%q).Compare(NewAtom(%q)) = %d", name, prev, got)
					}
				}
				_ = engine.NewVariable()
			}
			// fresh atoms per run so that interning really happens concurrently
			tagged := map[string]J{}
			for k, v := range p {
				tagged[k] = v
			}
			r, err := isoRunProgram(tagged, &concOut[i])
			if err != nil {
				mu.Lock()
				conc[i] = isoRun{end: "load error: " + err.Error()}
				mu.Unlock()
				return
			}
			engine.NewAtom(fmt.Sprintf("iso_%d_%d_%s", os.Getpid(), i, jt.Render(p["query"])))
			conc[i] = r
		}(i, p.(map[string]J))
	}
	close(barrier)
	allDone := make(chan struct{})
	go func() { wg.Wait(); close(allDone) }()
	select {
	case <-allDone:
	case <-time.After(90 * time.Second):
		// Every program has finished alone within its own watchdogs (a few seconds); 90 s is far beyond what the same programs need
		// side by side, also on a loaded machine and under the race detector - and below the pool's limit for a case, which would
		// otherwise discard the dead worker as a crash. (The goroutines stay blocked: "fatal" makes the pool replace the worker.)
		return map[string]J{"status": "mismatch", "input": input, "what": "the interpreters running concurrently", "expected": "every one of them finishes (each finishes when run alone)",
			"observed": "blocked for 90s: they wait for each other", "fatal": true}
	}
	engine.VerifHooks.OnIntern = nil
	for i := range progs {
		if torn[i] != "" {
			return map[string]J{"status": "mismatch", "input": input, "what": "the text of an atom interned concurrently", "expected": "the interned name", "observed": torn[i]}
		}
		for k := 0; k < nShared; k++ {
			if shared[i][k] != shared[0][k] {
				return map[string]J{"status": "mismatch", "input": input, "what": fmt.Sprintf("the same name interned concurrently by goroutines 1 and %d", i+1),
					"expected": "one atom", "observed": fmt.Sprintf("atoms %d and %d for shared name #%d", shared[0][k], shared[i][k], k)}
			}
		}
	}
	for i := range progs {
		if alone[i].end == "skip" || conc[i].end == "skip" {
			continue
		}
		if strings.Join(alone[i].answers, "|") != strings.Join(conc[i].answers, "|") || alone[i].end != conc[i].end || aloneOut[i] != concOut[i].String() {
			return map[string]J{"status": "mismatch", "input": input, "what": fmt.Sprintf("program %d run concurrently with %d others", i+1, len(progs)-1),
				"expected": map[string]J{"answers": alone[i].answers, "end": alone[i].end, "out": aloneOut[i]},
				"observed": map[string]J{"answers": conc[i].answers, "end": conc[i].end, "out": concOut[i].String()}}
		}
	}
	events := []map[string]J{}
	events = append(events, log...)
	return map[string]J{"status": "recorded", "input": fmt.Sprintf("%d interpreters concurrently; first program: %s", len(progs), texts[0]), "events": events,
		"init": map[string]J{"size": float64(names0), "base": float64(0x10FFFF + 1)}}
}

func isoconcGen(seed int64, n int, opts map[string]string) []J {
	var out []J
	progs := engineGen(seed, n*5, map[string]string{"feat": "catch,db,bag"})
	k := 0
	for i := 0; i < n; i++ {
		m := 2 + i%7
		var ps []J
		for j := 0; j < m; j++ {
			ps = append(ps, progs[k%len(progs)])
			k++
		}
		out = append(out, map[string]J{"progs": ps})
	}
	return out
}
