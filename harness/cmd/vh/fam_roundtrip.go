package main

// Family "roundtrip" (C06): a case is a term shape over lexical classes, an operator table, a writer and a
// double_quotes setting from RoundTrip.tla. The handler concretises the classes with seeded samples, builds the term in
// a real interpreter WITHOUT the reader (atoms from code lists through atom_codes/2 with '?' arguments, numbers as Go
// values, compounds through =../2), writes it with the writer to an in-memory sink, appends " ." and reads it back with
// read_term/2 from an in-memory source under the same table and flags; the two terms must be variants (floats bit for
// bit). Family "numtrip": number_codes/2, number_chars/2 and writeq/read round trips of seeded random numbers.

import (
	"encoding/json"
	"fmt"
	"math"
	"math/rand"
	"reflect"
	"strconv"
	"strings"

	"github.com/ichiban/prolog"
	"github.com/ichiban/prolog/engine"

	"verifharness/internal/jt"
)

func init() {
	register("roundtrip", &family{handle: roundtripHandle})
	register("numtrip", &family{handle: numtripHandle, gen: numtripGen})
}

var atomSamples = map[string][]string{
	"alnum": {"a", "abc", "aB_1"}, "graphic": {"#", "&&", "@>>", "\\"}, "solo": {"!", ";"}, "quoted_plain": {"hello world", "A", "_x", "1a"},
	"quoted_escape": {"it's", "a\\b", "line\nbreak", "tab\there", "''", "/*"}, "empty": {""}, "non_ascii": {"é", "日本", "naïve", "Ωmega"}, "graphic_unicode": {"∅", "≤", "∀", "⨁", "∀≤", "⊥+"},
	"op_prefix": {"\\+", "?-", "fy1"}, "op_infix": {"=", "is", "mod", "-->", "xfx1", "=.."}, "op_postfix": {"xf1", "yf1"}, "op_both": {"-", "+"},
	"comma": {","}, "bar": {"|"}, "nil": {"[]"}, "curly": {"{}"}, "user_prefix": {"fy1", "fx1"}, "user_infix": {"xfx1", "xfy1", "yfx1"},
}

// the characters of AtomText.tla: the first 12 are the ones used with the longer names
var atomTextChars = []rune{'a', 'A', '_', '0', '+', '.', '\'', '\\', ' ', '(', ',', '\n', '"', '`', 'é', '|', '[', ']', '{', '}', '!', ';', '%', '/', '*', ')', '∀'}

var numSamples = map[string][]interface{}{
	"int_pos": {1, 42, 4611686018427387904}, "int_neg": {-1, -42, -4611686018427387904}, "int_zero": {0}, "int_big": {int64(math.MaxInt64), int64(math.MinInt64)},
	"float_pos": {1.0, 0.1, 1e22, 5e-324, math.MaxFloat64, 5.705004189984573e-117, 2.2250738585072014e-308, 123456789.125}, "float_neg": {-1.0, -2.5e-10, -1e100, -0.1},
	"float_negzero": {math.Copysign(0, -1)},
}

var opNames = map[string]string{"minus": "-", "plus": "+", "naf": "\\+", "user_fy": "fy1", "user_fx": "fx1", "colondash": ":-", "eq": "=", "comma": ",", "semicolon": ";", "arrow": "->",
	"caret": "^", "is": "is", "user_xfx": "xfx1", "user_xfy": "xfy1", "user_yfx": "yfx1", "bar": "|", "user_xf": "xf1", "user_yf": "yf1", "user_gfy": "∀", "user_gxfx": "≤"}

var tableOps = map[string][]string{
	"default":    {},
	"user_ops":   {"op(200, xfy, xfy1)", "op(400, yfx, yfx1)", "op(700, xfx, xfx1)", "op(100, xf, xf1)", "op(150, yf, yf1)", "op(300, fy, fy1)", "op(650, fx, fx1)", "op(200, fy, ∀)", "op(700, xfx, ≤)"},
	"minus_weak": {"op(900, fy, -)", "op(700, xfx, -)", "op(200, xfy, xfy1)", "op(1000, fy, fy1)"},
	"eq_removed": {"op(0, xfx, =)", "op(0, fy, \\+)", "op(700, xfx, xfx1)", "op(100, yf, yf1)"},
	"comma_like": {"op(1000, xfy, xfy1)", "op(1150, fx, fx1)", "op(1100, xfy, '|')", "op(999, yfx, yfx1)", "op(1200, xfx, xfx1)", "op(1001, fy, fy1)", "op(1200, xf, xf1)", "op(1105, fy, ∀)", "op(1000, xfx, ≤)"},
}

type rtBuilder struct {
	r     *rand.Rand
	goals []string
	args  []interface{}
	n     int
}

func (b *rtBuilder) v() string { b.n++; return fmt.Sprintf("T%d", b.n) }

func (b *rtBuilder) atom(name string) string {
	v := b.v()
	codes := []int{}
	for _, r := range name {
		codes = append(codes, int(r))
	}
	b.goals = append(b.goals, fmt.Sprintf("atom_codes(%s, ?)", v))
	b.args = append(b.args, codes)
	return v
}

func (b *rtBuilder) term(t []J) string {
	switch t[0].(string) {
	case "atom":
		s := atomSamples[t[1].(string)]
		return b.atom(s[b.r.Intn(len(s))])
	case "share2", "sharelist", "shareop":
		x := b.term(t[1].([]J)) // built once, used twice
		v := b.v()
		switch t[0].(string) {
		case "share2":
			b.goals = append(b.goals, fmt.Sprintf("'=..'(%s, [g, %s, %s])", v, x, x))
		case "sharelist":
			b.goals = append(b.goals, fmt.Sprintf("'='(%s, [%s, b, %s])", v, x, x))
		default:
			b.goals = append(b.goals, fmt.Sprintf("'=..'(%s, [:-, %s, %s])", v, x, x))
		}
		return v
	case "dqpair":
		v := b.v()
		b.goals = append(b.goals, fmt.Sprintf("'='(%s, f(\"ab\", \"ab\", [\"ab\"]))", v))
		return v
	case "atomtext":
		// AtomText.tla: the name is given character by character (numbers into atomTextChars)
		var name []rune
		for _, k := range t[1].([]J) {
			name = append(name, atomTextChars[jt.Int(k)-1])
		}
		return b.atom(string(name))
	case "fn":
		f, x := b.term(t[1].([]J)), b.term(t[2].([]J))
		v := b.v()
		b.goals = append(b.goals, fmt.Sprintf("'=..'(%s, [%s, %s])", v, f, x))
		return v
	case "num":
		s := numSamples[t[1].(string)]
		v := b.v()
		b.goals = append(b.goals, fmt.Sprintf("'='(%s, ?)", v))
		b.args = append(b.args, s[b.r.Intn(len(s))])
		return v
	case "var":
		return b.v()
	case "pre", "post":
		f, x := b.atom(opNames[t[1].(string)]), b.term(t[2].([]J))
		v := b.v()
		b.goals = append(b.goals, fmt.Sprintf("'=..'(%s, [%s, %s])", v, f, x))
		return v
	case "inf":
		f, x, y := b.atom(opNames[t[1].(string)]), b.term(t[2].([]J)), b.term(t[3].([]J))
		v := b.v()
		b.goals = append(b.goals, fmt.Sprintf("'=..'(%s, [%s, %s, %s])", v, f, x, y))
		return v
	case "cmp1":
		f, x := b.atom([]string{"f", "foo bar", "-", "[]"}[b.r.Intn(4)]), b.term(t[1].([]J))
		v := b.v()
		b.goals = append(b.goals, fmt.Sprintf("'=..'(%s, [%s, %s])", v, f, x))
		return v
	case "cmp2":
		f, x, y := b.atom([]string{"g", "G", "xfx1", "."}[b.r.Intn(4)]), b.term(t[1].([]J)), b.term(t[2].([]J))
		v := b.v()
		b.goals = append(b.goals, fmt.Sprintf("'=..'(%s, [%s, %s, %s])", v, f, x, y))
		return v
	case "curly":
		f, x := b.atom("{}"), b.term(t[1].([]J))
		v := b.v()
		b.goals = append(b.goals, fmt.Sprintf("'=..'(%s, [%s, %s])", v, f, x))
		return v
	case "list1":
		x := b.term(t[1].([]J))
		v := b.v()
		b.goals = append(b.goals, fmt.Sprintf("'='(%s, [%s])", v, x))
		return v
	case "list2":
		x, y := b.term(t[1].([]J)), b.term(t[2].([]J))
		v := b.v()
		b.goals = append(b.goals, fmt.Sprintf("'='(%s, [%s, %s])", v, x, y))
		return v
	case "partial":
		x := b.term(t[1].([]J))
		v, tl := b.v(), b.v()
		b.goals = append(b.goals, fmt.Sprintf("'='(%s, '.'(%s, %s))", v, x, tl))
		return v
	case "ptail":
		x := b.term(t[1].([]J))
		v := b.v()
		b.goals = append(b.goals, fmt.Sprintf("'='(%s, '.'(a, '.'(b, %s)))", v, x))
		return v
	}
	panic(fmt.Sprint("bad shape ", t))
}

func canonOf(c capture) J {
	cn := jt.NewCanon(c.env)
	var back J
	bs, _ := json.Marshal(cn.Term(c.term))
	_ = json.Unmarshal(bs, &back)
	return back
}

func writerGoal(w, t string) string {
	switch w {
	case "writeq":
		return "writeq(" + t + ")"
	case "write_canonical":
		return "write_canonical(" + t + ")"
	case "quoted":
		return "write_term(" + t + ", [quoted(true)])"
	}
	return "write_term(" + t + ", [quoted(true), ignore_ops(true)])"
}

func roundtripHandle(c map[string]J) map[string]J {
	table, writer, dq := c["table"].(string), c["writer"].(string), c["dq"].(string)
	rounds := 2
	if n, err := strconv.Atoi(opt("rounds")); err == nil {
		rounds = n
	}
	for round := 0; round < rounds; round++ {
		b := &rtBuilder{r: rand.New(rand.NewSource(caseSeedJ(c, round)))}
		top := b.term(c["term"].([]J))
		var out strings.Builder
		p := prolog.New(strings.NewReader(""), &out)
		for _, o := range tableOps[table] {
			if sol := p.QuerySolution(o + "."); sol.Err() != nil {
				return map[string]J{"status": "badcase", "detail": o + ": " + sol.Err().Error()}
			}
		}
		if sol := p.QuerySolution(fmt.Sprintf("set_prolog_flag(double_quotes, %s).", dq)); sol.Err() != nil {
			return map[string]J{"status": "badcase", "detail": sol.Err().Error()}
		}
		q := strings.Join(append(b.goals, "'='(T, "+top+")", writerGoal(writer, "T")), ", ") + " ."
		sols, err := p.Query(q, b.args...)
		if err != nil {
			return map[string]J{"status": "badcase", "detail": err.Error() + " in " + q}
		}
		if !sols.Next() {
			e := fmt.Sprint(sols.Err())
			sols.Close()
			// the shape cannot be built under this table (e.g. =.. with a number as functor): not a case
			return map[string]J{"status": "discard", "why": "term could not be built: " + oneLineN(e, 60)}
		}
		var cap struct{ T capture }
		_ = sols.Scan(&cap)
		orig := canonOf(cap.T)
		sols.Close()
		text := out.String()
		input := fmt.Sprintf("table=%s writer=%s double_quotes=%s term=%s written as: %s", table, writer, dq, jt.Render(orig), text)
		p.SetUserInput(engine.NewInputTextStream(strings.NewReader(text + " .")))
		s2, err := p.Query("read_term(R, []).")
		if err != nil {
			return map[string]J{"status": "badcase", "detail": err.Error()}
		}
		if !s2.Next() {
			e := fmt.Sprint(s2.Err())
			s2.Close()
			return map[string]J{"status": "mismatch", "input": input, "what": "the written text is not accepted by read_term/2", "expected": "a term", "observed": e, "sig": "C06:noread:" + sigOf(text)}
		}
		var rc struct{ R capture }
		_ = s2.Scan(&rc)
		back := canonOf(rc.R)
		s2.Close()
		if !reflect.DeepEqual(orig, back) {
			return map[string]J{"status": "mismatch", "input": input, "what": "the text reads back as a different term", "expected": jt.Render(orig), "observed": jt.Render(back), "sig": "C06:differs:" + sigOf(text)}
		}
	}
	return map[string]J{"status": "ok", "input": fmt.Sprintf("table=%s writer=%s double_quotes=%s shape=%v", table, writer, dq, c["term"])}
}

func sigOf(text string) string {
	if len(text) > 40 {
		text = text[:40]
	}
	return strings.ReplaceAll(text, " ", "_")
}

func oneLineN(s string, n int) string {
	s = strings.ReplaceAll(s, "\n", " ")
	if len(s) > n {
		s = s[:n]
	}
	return s
}

func caseSeedJ(c map[string]J, round int) int64 {
	b, _ := json.Marshal(c)
	var h int64 = 1469598103934665603
	for _, x := range b {
		h = (h ^ int64(x)) * 1099511628211
	}
	seed, _ := strconv.ParseInt(opt("seed"), 10, 64)
	return (h ^ (seed * 7919) ^ int64(round)*104729) & 0x7fffffffffffffff
}

// ----------------------------------------------------------------------------------------------

func numtripGen(seed int64, n int, opts map[string]string) []J {
	r := rand.New(rand.NewSource(seed))
	var out []J
	hard := []float64{5.705004189984573e-117, 0.1, 1e22, 1e23, 5e-324, math.MaxFloat64, 2.2250738585072014e-308, 9007199254740993, 1.7976931348623157e308, 4.9e-324, 0.3, 2.675, 1e-7, 123456789012345680}
	for _, f := range hard {
		out = append(out, map[string]J{"kind": "float", "bits": strconv.FormatUint(math.Float64bits(f), 16)})
		out = append(out, map[string]J{"kind": "float", "bits": strconv.FormatUint(math.Float64bits(-f), 16)})
	}
	for i := 0; i < n; i++ {
		bits := r.Uint64()
		f := math.Float64frombits(bits)
		if math.IsInf(f, 0) || math.IsNaN(f) {
			continue
		}
		out = append(out, map[string]J{"kind": "float", "bits": strconv.FormatUint(bits, 16)})
		if i%10 == 0 {
			out = append(out, map[string]J{"kind": "int", "v": strconv.FormatInt(int64(r.Uint64()), 10)})
		}
	}
	for _, v := range []int64{0, 1, -1, math.MaxInt64, math.MinInt64, math.MaxInt64 - 1, math.MinInt64 + 1, 1 << 53, -(1 << 53)} {
		out = append(out, map[string]J{"kind": "int", "v": strconv.FormatInt(v, 10)})
	}
	return out
}

var numtripInterp *prolog.Interpreter
var numtripOut strings.Builder

func numtripHandle(c map[string]J) map[string]J {
	if numtripInterp == nil {
		numtripInterp = prolog.New(strings.NewReader(""), &numtripOut)
	}
	p := numtripInterp
	var arg interface{}
	var desc string
	if c["kind"] == "float" {
		bits, _ := strconv.ParseUint(c["bits"].(string), 16, 64)
		f := math.Float64frombits(bits)
		arg = f
		desc = fmt.Sprintf("float %v (bits %s)", f, c["bits"])
	} else {
		v, _ := strconv.ParseInt(c["v"].(string), 10, 64)
		arg = v
		desc = "integer " + c["v"].(string)
	}
	same := func(t engine.Term, env *engine.Env) bool {
		switch x := env.Resolve(t).(type) {
		case engine.Float:
			f, ok := arg.(float64)
			return ok && math.Float64bits(float64(x)) == math.Float64bits(f)
		case engine.Integer:
			i, ok := arg.(int64)
			return ok && int64(x) == i
		}
		return false
	}
	for _, q := range []string{
		"N = ?, number_codes(N, Cs), number_codes(M, Cs) .",
		"N = ?, number_chars(N, Cs), number_chars(M, Cs) .",
		"N = ?, number_codes(N, Cs), atom_codes(A, Cs), atom_number_via_read(A, M) .",
	} {
		if strings.Contains(q, "atom_number_via_read") {
			// writeq then read_term
			numtripOut.Reset()
			s0, err := p.Query("N = ?, writeq(N) .", arg)
			if err != nil || !s0.Next() {
				return map[string]J{"status": "mismatch", "input": desc, "what": "writeq of a number", "expected": "ok", "observed": fmt.Sprint(err)}
			}
			s0.Close()
			text := numtripOut.String()
			p.SetUserInput(engine.NewInputTextStream(strings.NewReader(text + " .")))
			s1, err := p.Query("read_term(M, []).")
			if err != nil {
				return map[string]J{"status": "badcase", "detail": err.Error()}
			}
			if !s1.Next() {
				e := fmt.Sprint(s1.Err())
				s1.Close()
				return map[string]J{"status": "mismatch", "input": desc + " written as " + text, "what": "the written number is not accepted by read_term/2", "expected": "the number", "observed": e, "sig": "C06:num:noread"}
			}
			var rc struct{ M capture }
			_ = s1.Scan(&rc)
			ok := same(rc.M.term, rc.M.env)
			s1.Close()
			if !ok {
				return map[string]J{"status": "mismatch", "input": desc + " written as " + text, "what": "writeq then read_term gives a different number", "expected": desc, "observed": fmt.Sprint(rc.M.env.Resolve(rc.M.term)), "sig": "C06:num:writeq-read"}
			}
			continue
		}
		s, err := p.Query(q, arg)
		if err != nil {
			return map[string]J{"status": "badcase", "detail": err.Error()}
		}
		if !s.Next() {
			e := fmt.Sprint(s.Err())
			s.Close()
			return map[string]J{"status": "mismatch", "input": desc + " ?- " + q, "what": "number to text and back did not succeed", "expected": "success", "observed": e, "sig": "C06:num:fail"}
		}
		var rc struct{ M capture }
		_ = s.Scan(&rc)
		ok := same(rc.M.term, rc.M.env)
		got := fmt.Sprint(rc.M.env.Resolve(rc.M.term))
		s.Close()
		if !ok {
			return map[string]J{"status": "mismatch", "input": desc + " ?- " + q, "what": "the text turns back into a different number", "expected": desc, "observed": got, "sig": "C06:num:" + strings.Fields(q)[3][:12]}
		}
	}
	return map[string]J{"status": "ok", "input": desc}
}
