package main

// Family "robust" (C05): cases from Robust.tla. kind "tokens": a sequence of token kinds, concretised with and without
// separating layout and handed to Query, Exec and read_term/2. kind "shapes": a tuple of argument shapes, applied to
// every registered predicate of that arity (the list is read from the code through the accessor hook). The outcome must
// be answers, failure or an error; a predicate's error must be error(Formal, _) with an ISO formal term; no crash (the
// worker process dies), no hang (per-call watchdog), no residue of a recovered Go panic.

import (
	"context"
	"fmt"
	"os"
	"sort"
	"strings"
	"time"

	"github.com/ichiban/prolog"
	"github.com/ichiban/prolog/engine"

	"verifharness/internal/jt"
)

func init() {
	register("robust", &family{handle: robustHandle})
}

var tokenText = map[string][]string{
	"name": {"foo", "a"}, "op_minus": {"-"}, "op_neck": {":-"}, "var": {"X", "_"}, "int": {"1", "0'a", "0x1F"}, "float": {"1.0", "2.5e10"}, "dq": {"\"ab\"", "\"\""},
	"bq": {"`ab`"}, "open": {"("}, "close": {")"}, "open_list": {"["}, "close_list": {"]"}, "open_curly": {"{"}, "close_curly": {"}"}, "bar": {"|"}, "comma": {","},
	"end": {"."}, "quoted": {"'a b'", "'it''s'"}, "op_infix": {"=", "is", "->"},
}

// two more concretisations of every token kind: characters outside ASCII that belong (or nearly belong) to the same lexical
// class - digits, letters, spaces, symbols of other scripts, a combining mark, NUL, a byte that is not UTF-8
var tokenTextOdd = [2]map[string]string{
	{"name": "é日", "op_minus": "∀", "op_neck": "⊢", "var": "Ωx", "int": "٣", "float": "٣.٥", "dq": "\"é\\x41\\\"", "bq": "`é`", "quoted": "'\\x41\\é'", "op_infix": "≤"},
	{"name": "a\u0301", "op_minus": "\u2212", "var": "_\u00a0", "int": "１２", "float": "1.0e٣", "dq": "\"\xff\"", "quoted": "'\x00'", "op_infix": "€", "comma": "，", "open": "（", "end": ".\u3000"},
}

var shapeText = map[string]string{
	"var": "_", "atom": "foo", "nil": "[]", "int": "1", "maxint": "9223372036854775807", "minint": "-9223372036854775808", "float": "1.5", "compound": "f(x)",
	"list": "[a,b]", "partial": "[a|_]", "improper": "[a|b]", "charlist": "\"ab\"", "callable_cut": "(true, !)", "stream": "user_output", "pi": "foo/1", "minus1": "-(1)",
	"negint": "-1", "codes": "[0'a,0'b]", "pair_list": "[a-1,b-2]", "op_atom": "+",
}

// the same shapes reached through a variable that an EARLIER goal of the query binds (a plain goal of the conjunction: the
// bindings are in force at run time only, call/1 would compile them into the term): <earlier goal, argument>; %d = position
var shapeIndirect = map[string][2]string{
	"list": {"T%d = [b]", "[a|T%d]"}, "codes": {"T%d = [0'b]", "[0'a|T%d]"}, "pair_list": {"T%d = [b-2]", "[a-1|T%d]"}, "charlist": {"T%d = \"b\"", "[a|T%d]"},
	"compound": {"T%d = x", "f(T%d)"}, "callable_cut": {"T%d = !", "(true, T%d)"}, "pi": {"T%d = foo", "T%d/1"}, "minus1": {"T%d = 1", "-(T%d)"},
	"improper": {"T%d = b", "[a|T%d]"}, "partial": {"T%d = [b|_]", "[a|T%d]"},
	// partial lists that append/3 makes from a prefix in another representation (these shapes have no direct notation)
	"app_chars": {"atom_chars(ab, C%d), append(C%d, _, T%d)", "T%d"}, "app_cells": {"C%d = '.'(a, '.'(b, [])), append(C%d, _, T%d)", "T%d"},
}

var robustPreds map[int][]string

func loadPreds() {
	robustPreds = map[int][]string{}
	p := prolog.New(nil, nil)
	for _, pr := range engine.VerifProcedures(&p.VM) {
		n := pr.Name.String()
		if n == "halt" {
			continue // excluded by the property
		}
		robustPreds[pr.Arity] = append(robustPreds[pr.Arity], n)
	}
	for _, l := range robustPreds {
		sort.Strings(l)
	}
}

type outcome struct {
	kind   string // answers | fail | error | panic | non_iso_error | hang
	detail string
}

func classifyErr(err error, iso map[string]bool, pred string) outcome {
	if ex, ok := err.(engine.Exception); ok {
		t := jt.NewCanon(nil).Term(ex.Term()).([]J)
		text := jt.Render(t)
		if strings.Contains(text, "panic") || strings.Contains(text, "runtime error") {
			return outcome{"panic", text}
		}
		if t[0] == "c" && t[1] == "error" {
			f := t[2].([]J)[0].([]J)
			name, ar := "", 0
			switch f[0] {
			case "a":
				name = f[1].(string)
			case "c":
				name, ar = f[1].(string), len(f[2].([]J))
			}
			if iso[fmt.Sprintf("%s/%d", name, ar)] {
				return outcome{"error", text}
			}
			return outcome{"non_iso_error", text}
		}
		return outcome{"error", "ball " + text} // a ball thrown by the called goal itself (call/N, catch/3, throw/1)
	}
	s := err.Error()
	if strings.Contains(s, "panic") || strings.Contains(s, "runtime error") || strings.Contains(s, "nil pointer") || strings.Contains(s, "index out of range") {
		return outcome{"panic", s}
	}
	return outcome{"error", s}
}

// callGoal runs a goal text on p (first 5 answers) under a watchdog.
func callGoal(p *prolog.Interpreter, q string, iso map[string]bool, pred string) outcome {
	done := make(chan outcome, 1)
	ctx, cancel := context.WithCancel(context.Background())
	defer cancel()
	go func() {
		defer func() {
			if r := recover(); r != nil {
				done <- outcome{"panic", fmt.Sprint("unrecovered panic in the API call: ", r)}
			}
		}()
		sols, err := p.QueryContext(ctx, q)
		if err != nil {
			done <- classifyErr(err, iso, pred)
			return
		}
		n := 0
		for n < 5 && sols.Next() {
			n++
			// the answer is taken the way a host takes it: a term that cannot be walked would show here
			_ = sols.Scan(map[string]prolog.TermString{})
		}
		err = sols.Err()
		_ = sols.Close()
		switch {
		case err != nil:
			done <- classifyErr(err, iso, pred)
		case n > 0:
			done <- outcome{"answers", ""}
		default:
			done <- outcome{"fail", ""}
		}
	}()
	select {
	case o := <-done:
		return o
	case <-time.After(wd(2 * time.Second)):
		return outcome{"hang", "no result within 2s (a context was not even passed: Query/Exec must return by themselves)"}
	}
}

func robustHandle(c map[string]J) map[string]J {
	iso := map[string]bool{}
	for _, f := range c["iso"].([]J) {
		fa := f.([]J)
		iso[fmt.Sprintf("%s/%d", fa[0].(string), jt.Int(fa[1]))] = true
	}
	dir := opt("tmp")
	if dir != "" {
		_ = os.Chdir(dir) // predicates that touch files are confined to a scratch directory
	}
	bad := func(input string, o outcome) map[string]J {
		res := map[string]J{"status": "mismatch", "input": input, "what": "outcome outside the contract: " + o.kind, "expected": "answers | fail | error(IsoFormal, _)", "observed": oneLineN(o.detail, 300)}
		if o.kind == "hang" {
			res["fatal"] = true
		}
		return res
	}
	if c["kind"] == "tokens" {
		toks := c["toks"].([]J)
		variants := []string{}
		for v := 0; v < 4; v++ {
			for _, sep := range []string{" ", ""} {
				var parts []string
				for _, t := range toks {
					s := tokenText[t.(string)]
					txt := s[v%len(s)]
					if v >= 2 {
						if o, ok := tokenTextOdd[v-2][t.(string)]; ok {
							txt = o
						}
					}
					parts = append(parts, txt)
				}
				variants = append(variants, strings.Join(parts, sep))
			}
		}
		seen := map[string]bool{}
		for _, text := range variants {
			if seen[text] {
				continue
			}
			seen[text] = true
			fmt.Fprintf(os.Stderr, "TEXT %q\n", text)
			for _, api := range []string{"query", "exec", "read_term"} {
				p := prolog.New(strings.NewReader(text), &strings.Builder{})
				var o outcome
				switch api {
				case "query":
					o = callGoal(p, text, iso, "")
				case "exec":
					done := make(chan outcome, 1)
					go func() {
						defer func() {
							if r := recover(); r != nil {
								done <- outcome{"panic", fmt.Sprint("unrecovered panic in Exec: ", r)}
							}
						}()
						if err := p.Exec(text); err != nil {
							done <- classifyErr(err, iso, "")
						} else {
							done <- outcome{"answers", ""}
						}
					}()
					select {
					case o = <-done:
					case <-time.After(wd(2 * time.Second)):
						o = outcome{"hang", "Exec did not return within 2s"}
					}
				case "read_term":
					o = callGoal(p, "read_term(T, []).", iso, "read_term")
				}
				if o.kind == "panic" || o.kind == "hang" || (o.kind == "non_iso_error" && api == "read_term") {
					return bad(fmt.Sprintf("%s of the text %q", api, text), o)
				}
			}
		}
		return map[string]J{"status": "ok", "input": fmt.Sprintf("texts %q", variants)}
	}
	if c["kind"] == "eval" {
		f := c["toks"].([]J)[0].(string)
		num := map[string]string{"var": "_", "atom": "foo", "zero": "0", "int": "3", "negint": "-1", "maxint": "9223372036854775807", "minint": "-9223372036854775808", "float": "1.5",
			"negfloat": "-2.5", "bigfloat": "1.0e308", "tinyfloat": "5.0e-324", "zerofloat": "0.0", "big_shift": "64", "compound": "f(1)", "list": "[1]"}
		var as []string
		for _, a := range c["args"].([]J) {
			as = append(as, num[a.(string)])
		}
		expr := jt.Atom(f) + "(" + strings.Join(as, ", ") + ")"
		p := prolog.New(strings.NewReader(""), &strings.Builder{})
		for _, q := range []string{"X is " + expr + ".", expr + " =:= 1.", "1 < " + expr + "."} {
			fmt.Fprintf(os.Stderr, "CALL %s\n", q)
			if o := callGoal(p, q, iso, "is"); o.kind == "panic" || o.kind == "hang" || o.kind == "non_iso_error" {
				return bad("?- "+q, o)
			}
		}
		return map[string]J{"status": "ok", "input": "?- X is " + expr + "."}
	}
	if c["kind"] == "collect" || c["kind"] == "order" {
		// the value(s) written in the goal, and reached through variables bound by earlier goals
		var direct, ind, pres []string
		ok := true
		for i, a := range c["args"].([]J) {
			t := shapeText[a.(string)]
			if a == "app_chars" || a == "app_cells" {
				ok = false
			}
			direct = append(direct, strings.ReplaceAll(t, "_", fmt.Sprintf("U%d", i+1)))
			if x, has := shapeIndirect[a.(string)]; has {
				pres = append(pres, strings.ReplaceAll(x[0], "%d", fmt.Sprint(i+1)))
				ind = append(ind, strings.ReplaceAll(x[1], "%d", fmt.Sprint(i+1)))
			} else {
				pres = append(pres, fmt.Sprintf("T%d = %s", i+1, strings.ReplaceAll(t, "_", fmt.Sprintf("U%d", i+1))))
				ind = append(ind, fmt.Sprintf("T%d", i+1))
			}
		}
		toks := c["toks"].([]J)
		goalOf := func(v []string) string {
			if c["kind"] == "collect" {
				op, form := toks[0].(string), toks[1].(string)
				data := fmt.Sprintf("[1-%s, 2-%s, 3-other]", v[0], v[0])
				switch form {
				case "free":
					return fmt.Sprintf("%s(X, member(X-L, %s), Xs)", op, data)
				case "template":
					return fmt.Sprintf("%s(L-X, member(X-L, %s), Xs)", op, data)
				default:
					return fmt.Sprintf("%s(X, L^member(X-L, %s), Xs)", op, data)
				}
			}
			switch p := toks[0].(string); p {
			case "compare":
				return fmt.Sprintf("compare(O, %s, %s)", v[0], v[1])
			case "==", "@<":
				return fmt.Sprintf("(%s %s %s ; true)", v[0], p, v[1])
			case "keysort":
				return fmt.Sprintf("keysort([%s-1, %s-2, %s-3], R)", v[0], v[1], v[0])
			case "setof":
				return fmt.Sprintf("setof(E, member(E, [%s, %s, %s]), R)", v[0], v[1], v[0])
			default:
				return fmt.Sprintf("%s([%s, %s, %s], R)", p, v[0], v[1], v[0])
			}
		}
		p := prolog.New(strings.NewReader(""), &strings.Builder{})
		for variant, v := range [][]string{direct, ind} {
			if variant == 0 && !ok {
				continue
			}
			q := goalOf(v)
			if variant == 1 {
				q = strings.Join(pres, ", ") + ", " + q
			}
			fmt.Fprintf(os.Stderr, "CALL %s\n", q)
			if o := callGoal(p, q+".", iso, toks[0].(string)); o.kind == "panic" || o.kind == "hang" || o.kind == "non_iso_error" {
				return bad("?- "+q+".", o)
			}
		}
		return map[string]J{"status": "ok", "input": "?- " + goalOf(direct) + "."}
	}
	// shapes
	if robustPreds == nil {
		loadPreds()
	}
	args := c["args"].([]J)
	// two variants of every tuple: the arguments written in the goal, and the arguments (or the tail / an argument of them)
	// reached through variables bound by earlier goals
	var as, ias, pres []string
	direct := true
	for i, a := range args {
		t := shapeText[a.(string)]
		if t == "_" {
			t = fmt.Sprintf("V%d", i+1)
		}
		if a == "partial" {
			t = fmt.Sprintf("[a|W%d]", i+1) // named, so that the host sees its binding
		}
		if a == "app_chars" || a == "app_cells" {
			direct = false // no direct notation: only the variant with earlier goals
		}
		as = append(as, t)
		if ind, ok := shapeIndirect[a.(string)]; ok {
			pres = append(pres, strings.ReplaceAll(ind[0], "%d", fmt.Sprint(i+1)))
			ias = append(ias, strings.ReplaceAll(ind[1], "%d", fmt.Sprint(i+1)))
		} else if a == "var" {
			ias = append(ias, fmt.Sprintf("V%d", i+1))
		} else {
			pres = append(pres, fmt.Sprintf("T%d = %s", i+1, shapeText[a.(string)]))
			ias = append(ias, fmt.Sprintf("T%d", i+1))
		}
	}
	calls := 0
	var p *prolog.Interpreter
	for _, name := range robustPreds[len(args)] {
		for variant, av := range [][]string{as, ias} {
			goal := jt.Atom(name)
			if len(av) > 0 {
				goal += "(" + strings.Join(av, ", ") + ")"
			}
			if variant == 0 && !direct {
				continue
			}
			if variant == 1 {
				if len(pres) == 0 {
					continue
				}
				goal = strings.Join(pres, ", ") + ", " + goal
			}
			if calls%25 == 0 || p == nil {
				p = prolog.New(strings.NewReader("x. y."), &strings.Builder{})
			}
			calls++
			fmt.Fprintf(os.Stderr, "CALL %s\n", goal)
			o := callGoal(p, goal+".", iso, name)
			switch o.kind {
			case "panic", "hang", "non_iso_error":
				return bad("?- "+goal+".", o)
			case "error":
				p = nil // an error may have left a stream or flag behind: fresh interpreter
			}
		}
	}
	return map[string]J{"status": "ok", "input": fmt.Sprintf("%d calls of the predicates of arity %d applied to (%s)", calls, len(args), strings.Join(as, ", "))}
}
