package main

// Family "engine": cases are (database, query) pairs in the vocabulary of Engine.tla with the event sequence the
// specification predicts (call ports of the program's own predicates, answers, end). The handler runs the pair on
// the real interpreter with the call hook on and compares event by event. Without "events" in the case it only
// records (used for trace validation by EngineTrace.tla).

import (
	"context"
	"encoding/json"
	"fmt"
	"reflect"
	"sort"
	"strings"
	"time"

	"github.com/ichiban/prolog"
	"github.com/ichiban/prolog/engine"

	"verifharness/internal/jt"
)

func init() {
	register("engine", &family{handle: engineHandle, gen: engineGen})
}

type capture struct {
	term engine.Term
	env  *engine.Env
}

func (c *capture) Scan(_ *engine.VM, term engine.Term, env *engine.Env) error {
	c.term, c.env = term, env
	return nil
}

// engineProgram renders the database of a case as Prolog text and returns the set of its predicate keys.
func engineProgram(db []J) (string, map[string]bool) {
	user := map[string]bool{}
	var sb strings.Builder
	// option strings=1: lists of one-letter atoms in the PROGRAM are written as double-quoted strings (double_quotes = chars is the
	// default); queries keep the list notation, so a string in a clause meets the same list written another way
	if opt("strings") == "1" { // (written only then: family isoconc renders programs from several goroutines)
		jt.StringLists = true
		defer func() { jt.StringLists = false }()
	}
	for _, p := range db {
		pr := p.(map[string]J)
		key := pr["key"].([]J)
		k := fmt.Sprintf("%s/%d", key[0].(string), jt.Int(key[1]))
		user[k] = true
		if dyn, _ := pr["dyn"].(bool); dyn {
			fmt.Fprintf(&sb, ":- dynamic(%s/%d).\n", jt.Atom(key[0].(string)), jt.Int(key[1]))
		}
		cls, _ := pr["cls"].([]J)
		if k == "deep/0" && opt("deep") == "1" {
			// the specification's fact deep/0 as a deterministic recursion 2 500 levels deep (the auxiliary predicate is no
			// predicate of the case: its call ports are not recorded)
			sb.WriteString("deep :- vh_walk(2500).\nvh_walk(N) :- N =< 0, !.\nvh_walk(N) :- M is N - 1, vh_walk(M).\n")
			continue
		}
		for _, c := range cls {
			cl := c.(map[string]J)
			body := cl["body"]
			if b, ok := body.([]J); ok && b[0] == "a" && b[1] == "true" {
				// option pieces=1: every other fact with a list argument builds that list in its body, cell by cell through
				// auxiliary variables - the same clause for the specification, another representation at run time
				if opt("pieces") == "1" && jt.Int(cl["id"])%2 == 1 {
					if h, goals, ok := inPieces(cl["head"]); ok {
						fmt.Fprintf(&sb, "%s :- %s.\n", h, strings.Join(goals, ", "))
						continue
					}
				}
				fmt.Fprintf(&sb, "%s.\n", jt.Render(cl["head"]))
			} else {
				fmt.Fprintf(&sb, "%s :- %s.\n", jt.Render(cl["head"]), jt.Render(body))
			}
		}
	}
	return sb.String(), user
}

// inPieces replaces the first argument of the head that is a list of two or more cells by a variable and returns the goals
// that build the list one cell at a time: Y = [p|T1], T1 = [q|T2], T2 = [].
func inPieces(head J) (string, []string, bool) {
	h, ok := head.([]J)
	if !ok || h[0] != "c" {
		return "", nil, false
	}
	args := append([]J{}, h[2].([]J)...)
	for i, a := range args {
		at, ok := a.([]J)
		if !ok || at[0] != "c" || at[1] != "." || len(at[2].([]J)) != 2 {
			continue
		}
		var goals []string
		cur, name, k := J(at), "Pc0", 0
		for {
			ct, ok := cur.([]J)
			if !ok || ct[0] != "c" || ct[1] != "." || len(ct[2].([]J)) != 2 {
				break
			}
			k++
			next := fmt.Sprintf("Pc%d", k)
			goals = append(goals, fmt.Sprintf("%s = [%s|%s]", name, jt.Render(ct[2].([]J)[0]), next))
			cur, name = ct[2].([]J)[1], next
		}
		if k < 2 {
			continue
		}
		goals = append(goals, fmt.Sprintf("%s = %s", name, jt.Render(cur)))
		args[i] = []J{"a", "Pc0"}
		// (rendered as an atom: the name is a variable name, jt.Render writes atoms that look like variables quoted)
		text := jt.Render([]J{"c", h[1], args})
		return strings.Replace(text, "'Pc0'", "Pc0", 1), goals, true
	}
	return "", nil, false
}

type engineRun struct {
	events []map[string]J
	status string // "" | "hang" | "toolong" | "cyclic"
	prog   string
	query  string
}

func outOf(buf *strings.Builder, last *int) string {
	s := buf.String()[*last:]
	*last = buf.Len()
	return s
}

// runEngine executes one (db, query) pair and returns the observable events.
func runEngine(db []J, query J, qv int, max int, maxEvents int) (*engineRun, error) {
	prog, user := engineProgram(db)
	r := &engineRun{prog: prog, query: jt.Render(query) + "."}
	var outBuf strings.Builder
	last := 0
	p := prolog.New(strings.NewReader(""), &outBuf)
	asInit := opt("directive") == "1"
	if !asInit {
		if err := p.Exec(prog); err != nil {
			return r, fmt.Errorf("exec: %v", err)
		}
	}
	ctx, cancel := context.WithCancel(context.Background())
	defer cancel()
	me := &p.VM
	stop := false
	engine.VerifHooks.OnCall = func(vm *engine.VM, name engine.Atom, args []engine.Term, env *engine.Env) {
		if vm != me || stop {
			return
		}
		if !user[fmt.Sprintf("%s/%d", name.String(), len(args))] {
			return
		}
		if len(r.events) > maxEvents {
			r.status = "toolong"
			stop = true
			cancel()
			return
		}
		cn := jt.NewCanon(env)
		g := cn.Term(name.Apply(args...))
		if cn.TooBig {
			r.status = "toobig"
			stop = true
			cancel()
			return
		}
		if cn.Cyclic {
			r.status = "cyclic"
			stop = true
			cancel()
			return
		}
		r.events = append(r.events, map[string]J{"ev": "call", "goal": g, "out": outOf(&outBuf, &last)})
	}
	defer func() { engine.VerifHooks.OnCall = nil }()
	if asInit {
		// The query runs as an initialization goal of the SAME text as the clauses (whose variables have the same names as the
		// query's: V1, V2, ..). Observable: the call ports up to the first answer, and whether there was one.
		r.query = ":- initialization((" + jt.Render(query) + "))."
		done := make(chan error, 1)
		go func() { done <- p.ExecContext(ctx, prog+r.query) }()
		var err error
		select {
		case err = <-done:
		case <-time.After(wd(5 * time.Second)):
			r.status = "hang"
			stop = true
			cancel()
			return r, nil
		}
		if r.status != "" {
			return r, nil
		}
		switch ex, isEx := err.(engine.Exception); {
		case err == nil:
			r.events = append(r.events, map[string]J{"ev": "ans", "out": outOf(&outBuf, &last)})
		case isEx:
			r.events = append(r.events, map[string]J{"ev": "end", "kind": "error", "ball": jt.NewCanon(nil).Term(ex.Term()), "out": outOf(&outBuf, &last)})
		case strings.HasPrefix(err.Error(), "failed initialization goal"):
			r.events = append(r.events, map[string]J{"ev": "end", "kind": "fail", "out": outOf(&outBuf, &last)})
		default:
			return r, fmt.Errorf("exec: %v", err)
		}
		return r, nil
	}
	sols, err := p.QueryContext(ctx, r.query)
	if err != nil {
		return r, fmt.Errorf("query: %v", err)
	}
	next := func() bool {
		ch := make(chan bool, 1)
		go func() { ch <- sols.Next() }()
		select {
		case ok := <-ch:
			return ok
		case <-time.After(wd(5 * time.Second)):
			r.status = "hang"
			stop = true
			cancel()
			return false
		}
	}
	n := 0
	closed := false
	for next() {
		dest := map[string]*capture{}
		for i := 1; i <= qv; i++ {
			dest[fmt.Sprintf("V%d", i)] = nil
		}
		got := map[string]capture{}
		if err := sols.Scan(got); err != nil {
			return r, fmt.Errorf("scan: %v", err)
		}
		cn := jt.NewCanon(nil)
		b := []J{}
		for i := 1; i <= qv; i++ {
			cv, ok := got[fmt.Sprintf("V%d", i)]
			if !ok {
				b = append(b, cn.Term(engine.NewVariable()))
				continue
			}
			cn.Env = cv.env
			b = append(b, cn.Term(cv.term))
		}
		if cn.TooBig {
			r.status = "toobig"
			break
		}
		if cn.Cyclic {
			r.status = "cyclic"
			break
		}
		r.events = append(r.events, map[string]J{"ev": "ans", "b": b, "out": outOf(&outBuf, &last)})
		n++
		if max > 0 && n >= max {
			_ = sols.Close()
			closed = true
			break
		}
	}
	if r.status != "" {
		return r, nil
	}
	switch e := sols.Err(); {
	case closed:
		r.events = append(r.events, map[string]J{"ev": "end", "kind": "closed", "out": ""})
	case e != nil:
		ball := J([]J{"a", "$go:" + e.Error()})
		if ex, ok := e.(engine.Exception); ok {
			ball = jt.NewCanon(nil).Term(ex.Term())
		}
		r.events = append(r.events, map[string]J{"ev": "end", "kind": "error", "ball": ball, "out": outOf(&outBuf, &last)})
	default:
		r.events = append(r.events, map[string]J{"ev": "end", "kind": "fail", "out": outOf(&outBuf, &last)})
	}
	return r, nil
}

// normEvents brings spec-side events into the comparison form (out: sequence of strings -> one string).
func normEvents(evs []J) []map[string]J {
	out := make([]map[string]J, len(evs))
	for i, e := range evs {
		m := map[string]J{}
		for k, v := range e.(map[string]J) {
			m[k] = v
		}
		if o, ok := m["out"].([]J); ok {
			var sb strings.Builder
			for _, s := range o {
				sb.WriteString(s.(string))
			}
			m["out"] = sb.String()
		}
		if m["ev"] == "end" && m["kind"] != "error" {
			delete(m, "ball")
		}
		out[i] = m
	}
	return out
}

func engineHandle(c map[string]J) map[string]J {
	db, _ := c["db"].([]J)
	qv := jt.Int(c["qv"])
	max := 0
	if m, ok := c["max"]; ok {
		max = jt.Int(m)
	}
	maxEvents := 2000
	r, err := runEngine(db, c["query"], qv, max, maxEvents)
	input := r.prog + "?- " + r.query
	if err != nil {
		return map[string]J{"status": "mismatch", "input": input, "observed": err.Error(), "what": "harness could not run the case"}
	}
	exp, has := c["events"].([]J)
	if !has {
		// record mode
		switch r.status {
		case "toolong", "toobig":
			return map[string]J{"status": "discard", "why": r.status, "input": input}
		case "hang":
			return map[string]J{"status": "hang", "input": input, "detail": "Next did not return within 5s"}
		case "cyclic":
			// the recorder met a cyclic term: acceptable only if the reference run says the program is subject to occurs check
			return map[string]J{"status": "crash", "input": input, "detail": "cyclic term observed"}
		}
		return map[string]J{"status": "recorded", "events": r.events, "input": input}
	}
	if r.status == "hang" {
		return map[string]J{"status": "mismatch", "input": input, "observed": "Next did not return within 5s", "what": "hang"}
	}
	if r.status == "toobig" {
		return map[string]J{"status": "discard", "why": r.status, "input": input}
	}
	if dep, _ := c["vardep"].(bool); dep {
		// the expected result hinges on the order of two distinct unbound variables (ISO 7.2: implementation dependent)
		return map[string]J{"status": "discard", "why": "var-order-dependent", "input": input}
	}
	want := normEvents(exp)
	if opt("directive") == "1" {
		// an initialization goal is run for its first solution: the events up to the first answer, whose bindings nobody sees
		for i, e := range want {
			if e["ev"] == "ans" {
				delete(e, "b")
				want = want[:i+1]
				break
			}
		}
	}
	// round-trip observed events through JSON so that both sides have the same dynamic types
	var got []map[string]J
	bs, _ := json.Marshal(r.events)
	_ = json.Unmarshal(bs, &got)
	if nc, _ := c["nocalls"].(bool); nc {
		got = dropCalls(got)
		want = dropCalls(want)
	}
	if c["ansorder"] == "free" {
		sortAnsRuns(got)
		sortAnsRuns(want)
	}
	for i := 0; i < len(want) || i < len(got); i++ {
		if i >= len(want) || i >= len(got) || !reflect.DeepEqual(want[i], got[i]) {
			res := map[string]J{"status": "mismatch", "input": input, "at": i}
			if i < len(want) {
				res["expected"] = want[i]
			} else {
				res["expected"] = "no further event"
			}
			if i < len(got) {
				res["observed"] = got[i]
			} else {
				res["observed"] = "no further event (" + r.status + ")"
			}
			return res
		}
	}
	return map[string]J{"status": "ok", "events": len(got), "input": input}
}

// dropCalls removes call events (cases that compare answers only); output attached to them moves to the next event.
func dropCalls(evs []map[string]J) []map[string]J {
	var out []map[string]J
	carry := ""
	for _, e := range evs {
		o, _ := e["out"].(string)
		if e["ev"] == "call" {
			carry += o
			continue
		}
		e["out"] = carry + o
		carry = ""
		out = append(out, e)
	}
	return out
}

// sortAnsRuns sorts every maximal run of consecutive answers: the order of bagof/setof groups is not constrained.
func sortAnsRuns(evs []map[string]J) {
	key := func(e map[string]J) string { b, _ := json.Marshal(e); return string(b) }
	for i := 0; i < len(evs); {
		j := i
		for j < len(evs) && evs[j]["ev"] == "ans" {
			j++
		}
		if j > i+1 {
			run := evs[i:j]
			sort.Slice(run, func(a, b int) bool { return key(run[a]) < key(run[b]) })
		}
		if j == i {
			j++
		}
		i = j
	}
}
