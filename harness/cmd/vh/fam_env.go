package main

// Family "env" (C01): cases are histories of EnvPersist.tla - binds that derive a new version of the binding environment
// from any existing one. The replayer performs them on engine.Env (variables created in the order of their numbers, so that
// the history's random order is a random order of variable age) and compares every version with the model after every step.

import (
	"fmt"
	"strings"

	"github.com/ichiban/prolog/engine"

	"verifharness/internal/jt"
)

func init() {
	register("env", &family{handle: envHandle})
}

func envHandle(c map[string]J) map[string]J {
	nv := jt.Int(c["nv"])
	ops := c["ops"].([]J)
	model := c["versions"].([]J)
	vars := make([]engine.Variable, nv)
	for i := range vars {
		vars[i] = engine.NewVariable()
	}
	vals := []engine.Term{nil, engine.NewAtom("a"), engine.NewAtom("b")}
	envs := []*engine.Env{engine.NewEnv()}
	var desc []string
	for step, o := range ops {
		op := o.(map[string]J)
		base, x, v := jt.Int(op["base"]), jt.Int(op["var"]), jt.Int(op["val"])
		desc = append(desc, fmt.Sprintf("E%d := E%d + {X%d = %s}", len(envs)+1, base, x, vals[v]))
		env, ok := envs[base-1].Unify(vars[x-1], vals[v])
		if !ok {
			return map[string]J{"status": "mismatch", "input": strings.Join(desc, "; "), "what": "binding an unbound variable", "expected": "succeeds", "observed": "Unify failed"}
		}
		envs = append(envs, env)
		// every version, the old ones too, is what the model says
		for i, e := range envs {
			want := model[i].([]J)
			for y := 0; y < nv; y++ {
				got := e.Resolve(vars[y])
				w := jt.Int(want[y])
				if _, unbound := got.(engine.Variable); (w == 0) != unbound || (w != 0 && got != vals[w]) {
					exp := "unbound"
					if w != 0 {
						exp = fmt.Sprint(vals[w])
					}
					return map[string]J{"status": "mismatch", "input": strings.Join(desc, "; "), "what": fmt.Sprintf("X%d in version E%d after step %d", y+1, i+1, step+1),
						"expected": exp, "observed": fmt.Sprint(got)}
				}
			}
		}
	}
	return map[string]J{"status": "ok", "input": strings.Join(desc, "; ")}
}
