package main

import (
	"os"
	"runtime/pprof"
)

func init() {
	if f := os.Getenv("VH_CPUPROFILE"); f != "" {
		w, _ := os.Create(f)
		_ = pprof.StartCPUProfile(w)
		profStop = func() { pprof.StopCPUProfile(); w.Close() }
	}
}

var profStop = func() {}
