package main

// Seeded random program generator for trace validation of the engine family (inputs only: the oracle is
// EngineTrace.tla). Programs are small but structurally rich: several predicates of arity 0..3, nested compound /
// list / partial-list arguments, shared and repeated variables, direct and mutual recursion (structural and
// unguarded, the latter cut off by the event budget), conjunction, nested and top-level disjunction, call/N with
// partial goals, \+, findall, if-then-else; with the feature options also cut (at the placements C03 admits),
// catch/throw and built-in errors (C04), assert/retract on dynamic predicates (C09), bagof/setof (C11).

import (
	"fmt"
	"math/rand"
	"strconv"
	"strings"

	"verifharness/internal/jt"
)

type pgen struct {
	r     *rand.Rand
	preds []gpred
	feat  map[string]bool
	dyn   []gpred
}

type gpred struct {
	name  string
	arity int
}

var gatoms = []string{"a", "b", "c"}

func (g *pgen) ground(depth int) J {
	switch g.r.Intn(7) {
	case 0, 1:
		return jt.A(gatoms[g.r.Intn(len(gatoms))])
	case 2:
		return jt.I(g.r.Intn(3))
	case 3:
		if depth > 0 {
			return jt.C("f", g.ground(depth-1))
		}
	case 4:
		if depth > 0 {
			n := g.r.Intn(3)
			es := make([]J, n)
			for i := range es {
				es[i] = g.ground(depth - 1)
			}
			return jt.List(es, nil)
		}
	case 5:
		if depth > 0 {
			return jt.C("g", g.ground(depth-1), g.ground(depth-1))
		}
	}
	return jt.A(gatoms[g.r.Intn(len(gatoms))])
}

// term over variables 1..*nv; may introduce new ones while *nv < maxv. linear: every variable occurrence is new.
func (g *pgen) term(nv *int, maxv, depth int, linear bool) J {
	switch g.r.Intn(10) {
	case 0, 1, 2, 3:
		if linear {
			*nv++
			return jt.V(*nv)
		}
		if *nv > 0 && g.r.Intn(3) > 0 {
			return jt.V(1 + g.r.Intn(*nv))
		}
		if *nv < maxv {
			*nv++
			return jt.V(*nv)
		}
		if *nv > 0 {
			return jt.V(1 + g.r.Intn(*nv))
		}
	case 4:
		if depth > 0 {
			return jt.C("f", g.term(nv, maxv, depth-1, linear))
		}
	case 5:
		if depth > 0 {
			return jt.C("g", g.term(nv, maxv, depth-1, linear), g.term(nv, maxv, depth-1, linear))
		}
	case 6, 7:
		if depth > 0 {
			n := 1 + g.r.Intn(2)
			es := make([]J, n)
			for i := range es {
				es[i] = g.term(nv, maxv, depth-1, linear)
			}
			var tail J
			if g.r.Intn(3) == 0 {
				tail = g.term(nv, maxv, 0, linear)
			}
			return jt.List(es, tail)
		}
	}
	return g.ground(depth)
}

func (g *pgen) callOf(p gpred, nv *int, maxv int, linear bool) J {
	if p.arity == 0 {
		return jt.A(p.name)
	}
	args := make([]J, p.arity)
	for i := range args {
		args[i] = g.term(nv, maxv, 1+g.r.Intn(2), linear)
	}
	return jt.C(p.name, args...)
}

func (g *pgen) anyPred() gpred { return g.preds[g.r.Intn(len(g.preds))] }

// laterPred prefers predicates defined after pi (keeps most programs terminating) but allows any (recursion).
func (g *pgen) targetPred(pi int) gpred {
	if pi+1 < len(g.preds) && g.r.Intn(5) > 0 {
		return g.preds[pi+1+g.r.Intn(len(g.preds)-pi-1)]
	}
	return g.anyPred()
}

func (g *pgen) goal(pi int, nv *int, maxv, depth int) J {
	k := g.r.Intn(20)
	switch {
	case k <= 6:
		return g.callOf(g.targetPred(pi), nv, maxv, false)
	case k == 7:
		rhs := g.term(nv, maxv, 2, false)
		*nv++
		return jt.C("=", jt.V(*nv), rhs) // a fresh variable on the left
	case k == 8:
		if g.r.Intn(3) == 0 && *nv > 0 {
			// a list built in pieces: V = [t|W], W = [u] (the same term as V = [t,u], another representation at run time)
			v := 1 + g.r.Intn(*nv)
			*nv++
			w := *nv
			return jt.C(",", jt.C("=", jt.V(v), jt.List([]J{g.term(nv, maxv, 1, false)}, jt.V(w))), jt.C("=", jt.V(w), jt.List([]J{g.term(nv, maxv, 0, false)}, nil)))
		}
		return jt.C("=", g.term(nv, maxv, 1, false), g.term(nv, maxv, 1, false))
	case k == 9 && depth > 0:
		switch g.r.Intn(4) {
		case 0: // left-nested, twice
			return jt.C(";", jt.C(";", jt.C(";", g.goal(pi, nv, maxv, 0), g.goal(pi, nv, maxv, 0)), g.goal(pi, nv, maxv, 0)), g.goal(pi, nv, maxv, 0))
		case 1: // an if-then-else on the left of a disjunction
			return jt.C(";", jt.C(";", jt.C("->", g.goal(pi, nv, maxv, 0), g.goal(pi, nv, maxv, 0)), g.goal(pi, nv, maxv, 0)), g.goal(pi, nv, maxv, 0))
		}
		return jt.C(";", g.goal(pi, nv, maxv, depth-1), g.goal(pi, nv, maxv, depth-1))
	case k == 10 && depth > 0:
		p := g.targetPred(pi)
		if p.arity >= 1 {
			full := g.callOf(p, nv, maxv, false).([]J)
			args := full[2].([]J)
			n := 1 + g.r.Intn(len(args)) // number of extra arguments passed through call/N
			cl := jt.A(p.name)
			if len(args) > n {
				cl = jt.C(p.name, args[:len(args)-n]...)
			}
			return jt.C("call", append([]J{cl}, args[len(args)-n:]...)...)
		}
		return jt.C("call", jt.A(p.name))
	case k == 11 && depth > 0:
		return jt.C("\\+", g.goal(pi, nv, maxv, depth-1))
	case k == 12 && depth > 0:
		inner := g.callOf(g.targetPred(pi), nv, maxv+2, false)
		t := g.term(nv, maxv+2, 1, false)
		*nv++
		return jt.C("findall", t, inner, jt.V(*nv))
	case k == 13:
		return jt.C("\\=", g.term(nv, maxv, 1, false), g.term(nv, maxv, 1, false))
	case k == 14:
		return jt.C("==", g.term(nv, maxv, 1, false), g.term(nv, maxv, 1, false))
	case k == 15 && depth > 0:
		return jt.C(";", jt.C("->", g.goal(pi, nv, maxv, 0), g.goal(pi, nv, maxv, 0)), g.goal(pi, nv, maxv, 0))
	case k == 16 && depth > 0:
		return jt.C("once", g.goal(pi, nv, maxv, depth-1))
	case k == 17 && g.feat["catch"]:
		switch g.r.Intn(4) {
		case 0:
			return jt.C("throw", g.term(nv, maxv, 1, false))
		case 1:
			return jt.C("catch", g.goal(pi, nv, maxv, 1), g.term(nv, maxv, 1, false), g.goal(pi, nv, maxv, 0))
		case 2:
			*nv++
			return jt.C("is", jt.V(*nv), jt.A("foo"))
		default:
			inner := g.goal(pi, nv, maxv, 1)
			k := 1 + g.r.Intn(*nv+1) // an old variable or a new one
			if k > *nv {
				*nv = k
			}
			return jt.C("catch", inner, jt.V(k), jt.A("true"))
		}
	case k == 18 && g.feat["db"] && len(g.dyn) > 0:
		d := g.dyn[g.r.Intn(len(g.dyn))]
		cl := g.callOf(d, nv, maxv, false)
		switch g.r.Intn(5) {
		case 0:
			return jt.C("assertz", cl)
		case 1:
			return jt.C("asserta", cl)
		case 2:
			return jt.C("retract", cl)
		case 3:
			return cl
		default:
			return jt.C("once", jt.C("retract", cl))
		}
	case k == 19 && g.feat["bag"] && depth > 0:
		inner := g.callOf(g.targetPred(pi), nv, maxv+2, false)
		t := g.term(nv, maxv+2, 1, false)
		*nv++
		op := "bagof"
		if g.r.Intn(2) == 0 {
			op = "setof"
		}
		if g.r.Intn(3) == 0 && *nv > 1 {
			inner = jt.C("^", jt.V(1+g.r.Intn(*nv-1)), inner)
		}
		return jt.C(op, t, inner, jt.V(*nv))
	}
	return jt.A("true")
}

type gclause struct {
	head, body J
	nv         int
}

func conjOf(gs []J) J {
	if len(gs) == 0 {
		return jt.A("true")
	}
	t := gs[len(gs)-1]
	for i := len(gs) - 2; i >= 0; i-- {
		t = jt.C(",", gs[i], t)
	}
	return t
}

func (g *pgen) body(pi int, nv *int) []J {
	ng := 1 + g.r.Intn(3)
	var gs []J
	for k := 0; k < ng; k++ {
		if g.feat["cut"] && g.r.Intn(4) == 0 {
			gs = append(gs, jt.A("!")) // a direct conjunct of the body (or of a top-level disjunct)
			continue
		}
		gs = append(gs, g.goal(pi, nv, 6, 2))
	}
	return gs
}

func (g *pgen) program() (db []J, query J, qv int) {
	np := 2 + g.r.Intn(4)
	g.preds, g.dyn = nil, nil
	for i := 0; i < np; i++ {
		g.preds = append(g.preds, gpred{"p" + strconv.Itoa(i), g.r.Intn(4)})
	}
	if g.feat["db"] {
		nd := 1 + g.r.Intn(2)
		for i := 0; i < nd; i++ {
			g.dyn = append(g.dyn, gpred{"d" + strconv.Itoa(i), 1 + g.r.Intn(2)})
		}
	}
	id := 1
	for pi, p := range g.preds {
		var cls []gclause
		switch {
		case p.arity == 2 && g.r.Intn(3) == 0:
			// structural list recursion (map)
			cls = []gclause{
				{jt.C(p.name, jt.A("[]"), jt.A("[]")), jt.A("true"), 0},
				{jt.C(p.name, jt.C(".", jt.V(1), jt.V(2)), jt.C(".", jt.C("f", jt.V(1)), jt.V(3))), jt.C(p.name, jt.V(2), jt.V(3)), 3},
			}
		case p.arity == 3 && g.r.Intn(3) == 0:
			// append/3
			cls = []gclause{
				{jt.C(p.name, jt.A("[]"), jt.V(1), jt.V(1)), jt.A("true"), 1},
				{jt.C(p.name, jt.C(".", jt.V(1), jt.V(2)), jt.V(3), jt.C(".", jt.V(1), jt.V(4))), jt.C(p.name, jt.V(2), jt.V(3), jt.V(4)), 4},
			}
		case p.arity == 2 && g.r.Intn(4) == 0 && pi+1 < len(g.preds):
			// member/2-like with mutual recursion through the next predicate when it has arity 2
			cls = []gclause{
				{jt.C(p.name, jt.V(1), jt.C(".", jt.V(1), jt.V(2))), jt.A("true"), 2},
				{jt.C(p.name, jt.V(1), jt.C(".", jt.V(2), jt.V(3))), jt.C(p.name, jt.V(1), jt.V(3)), 3},
			}
		default:
			nc := 1 + g.r.Intn(3)
			for c := 0; c < nc; c++ {
				nv := 0
				linear := g.r.Intn(8) > 0
				head := g.callOf(p, &nv, 4, linear)
				body := jt.A("true")
				if g.r.Intn(3) > 0 {
					if g.r.Intn(6) == 0 {
						// top-level disjunction: both branches are cut-transparent
						body = jt.C(";", conjOf(g.body(pi, &nv)), conjOf(g.body(pi, &nv)))
					} else {
						body = conjOf(g.body(pi, &nv))
					}
				}
				cls = append(cls, gclause{head, body, nv})
			}
		}
		var jc []J
		for _, c := range cls {
			jc = append(jc, map[string]J{"id": float64(id), "head": c.head, "body": c.body, "nv": float64(c.nv)})
			id++
		}
		db = append(db, map[string]J{"key": []J{p.name, float64(p.arity)}, "dyn": false, "cls": jc})
	}
	for _, d := range g.dyn {
		var jc []J
		n := g.r.Intn(3)
		for c := 0; c < n; c++ {
			nv := 0
			head := g.callOf(d, &nv, 2, true)
			jc = append(jc, map[string]J{"id": float64(id), "head": head, "body": jt.A("true"), "nv": float64(nv)})
			id++
		}
		if jc == nil {
			jc = []J{}
		}
		db = append(db, map[string]J{"key": []J{d.name, float64(d.arity)}, "dyn": true, "cls": jc})
	}
	qnv := 0
	query = g.callOf(g.preds[0], &qnv, 3, false)
	switch g.r.Intn(4) {
	case 0:
		if len(g.preds) > 1 {
			query = jt.C(",", query, g.callOf(g.preds[1], &qnv, 3, false))
		}
	case 1:
		query = jt.C(",", query, g.goal(0, &qnv, 4, 1))
	}
	return db, query, qnv
}

func engineGen(seed int64, n int, opts map[string]string) []J {
	g := &pgen{r: rand.New(rand.NewSource(seed)), feat: map[string]bool{}}
	for _, f := range strings.Split(opts["feat"], ",") {
		if f != "" {
			g.feat[f] = true
		}
	}
	max := 8
	if m, err := strconv.Atoi(opts["max"]); err == nil {
		max = m
	}
	var out []J
	for i := 0; i < n; i++ {
		db, q, qv := g.program()
		out = append(out, map[string]J{"db": db, "query": q, "qv": float64(qv), "nv": float64(qv), "max": float64(max), "tag": fmt.Sprintf("seed%d#%d", seed, i)})
	}
	return out
}
