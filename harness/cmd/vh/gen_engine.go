package main

func engineGen(seed int64, n int, opts map[string]string) []J { return nil }
