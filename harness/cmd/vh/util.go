package main

import (
	"io"

	"github.com/ichiban/prolog/engine"
)

// engineStream wraps a writer as an output stream.
func engineStream(w io.Writer) *engine.Stream { return engine.NewOutputTextStream(w) }

// newVar returns a fresh unbound variable.
func newVar() engine.Term { return engine.NewVariable() }
