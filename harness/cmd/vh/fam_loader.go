package main

// Family "loader" (C20): cases are behaviours of Loader.tla: texts loaded one after the other and, after each load,
// the result class, the output of directives / initialization goals and the clause list of every predicate. The
// handler renders each text, loads it through Exec and observes the same things by calling the predicates.

import (
	"fmt"
	"strconv"
	"strings"

	"github.com/ichiban/prolog"

	"verifharness/internal/jt"
)

func init() {
	register("loader", &family{handle: loaderHandle})
}

func loaderText(items []J, t int) string {
	var sb strings.Builder
	for k, x := range items {
		it := x.([]J)
		id := t*100 + k + 1
		switch it[0].(string) {
		case "cl":
			fmt.Fprintf(&sb, "%s(%d).\n", it[1], id)
		case "dyn", "disc", "multi":
			decl := map[string]string{"dyn": "dynamic", "disc": "discontiguous", "multi": "multifile"}[it[0].(string)]
			switch {
			case it[1] != "pq":
				fmt.Fprintf(&sb, ":- %s(%s/1).\n", decl, it[1])
			case k%2 == 0: // both predicates in one directive: a list, or a comma sequence
				fmt.Fprintf(&sb, ":- %s([p/1, q/1]).\n", decl)
			default:
				fmt.Fprintf(&sb, ":- %s((q/1, p/1)).\n", decl)
			}
		case "init":
			fmt.Fprintf(&sb, ":- initialization((write(%d), nl)).\n", id)
		case "dir":
			fmt.Fprintf(&sb, ":- write(%d), nl.\n", id)
		case "syntax":
			sb.WriteString("foo(.\n")
		case "noncallable":
			sb.WriteString("1.\n")
		}
	}
	return sb.String()
}

func loaderErrClass(err error) string {
	if err == nil {
		return "none"
	}
	e := err.Error()
	switch {
	case strings.Contains(e, "discontiguous"):
		return "discontiguous"
	case strings.Contains(e, "type_error(callable"):
		return "type"
	case strings.Contains(e, "unexpected token"), strings.Contains(e, "syntax_error"), e == "EOF":
		return "syntax"
	}
	return "other:" + e
}

func loaderObserve(p *prolog.Interpreter, err error, out *strings.Builder) string {
	outs := strings.Fields(out.String())
	out.Reset()
	res := fmt.Sprintf("err=%s out=%v", loaderErrClass(err), outs)
	for _, pr := range []string{"p", "q"} {
		sols, qerr := p.Query(pr + "(X).")
		if qerr != nil {
			return "query error " + qerr.Error()
		}
		ids := []string{}
		for sols.Next() {
			var r struct{ X int }
			_ = sols.Scan(&r)
			ids = append(ids, strconv.Itoa(r.X))
		}
		def := "def"
		if e := sols.Err(); e != nil {
			def = "undef"
			if !strings.Contains(e.Error(), "existence_error") {
				def = "error:" + e.Error()
			}
		}
		sols.Close()
		res += fmt.Sprintf(" %s=%s%v", pr, def, ids)
	}
	return res
}

func loaderWant(o map[string]J) string {
	outs := []string{}
	for _, x := range o["out"].([]J) {
		outs = append(outs, strconv.Itoa(jt.Int(x)))
	}
	res := fmt.Sprintf("err=%s out=%v", o["err"], outs)
	for _, pr := range []string{"p", "q"} {
		e := o[pr].(map[string]J)
		ids := []string{}
		for _, c := range e["cls"].([]J) {
			ids = append(ids, strconv.Itoa(jt.Int(c)))
		}
		d := "def"
		if !e["def"].(bool) {
			d = "undef"
		}
		res += fmt.Sprintf(" %s=%s%v", pr, d, ids)
	}
	return res
}

func loaderHandle(c map[string]J) map[string]J {
	var out strings.Builder
	p := prolog.New(strings.NewReader(""), &out)
	texts := c["t"].([]J)
	obs := c["obs"].([]J)
	var log []string
	for i, tx := range texts {
		src := loaderText(tx.([]J), i+1)
		log = append(log, fmt.Sprintf("--- text %d ---\n%s", i+1, src))
		got := loaderObserve(p, p.Exec(src), &out)
		want := loaderWant(obs[i].(map[string]J))
		if got != want {
			return map[string]J{"status": "mismatch", "input": strings.Join(log, ""), "at": i, "what": fmt.Sprintf("observation after load %d", i+1), "expected": want, "observed": got}
		}
	}
	// dynamic/1 is honoured: at the very end, p/1 can be extended by assertz/1 iff it is dynamic (or undefined)
	last := obs[len(obs)-1].(map[string]J)
	sol := p.QuerySolution("assertz(p(999)).")
	gotDyn := sol.Err() == nil
	if gotDyn != last["pdyn"].(bool) {
		return map[string]J{"status": "mismatch", "input": strings.Join(log, ""), "what": "assertz(p(999)) after the last load", "expected": fmt.Sprintf("succeeds=%v", last["pdyn"]), "observed": fmt.Sprintf("succeeds=%v (%v)", gotDyn, sol.Err())}
	}
	return map[string]J{"status": "ok", "input": strings.Join(log, "")}
}
