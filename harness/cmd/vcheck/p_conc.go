package main

// Concurrency properties: C12 (Solutions.tla, SolutionsImpl.tla), C13 (Cancel.tla), C14 (Isolation.tla).

import "strings"

func init() {
	plans["C12"] = &plan{
		level: "model_checking",
		rule: "(design) SolutionsImpl.tla - consumer and search goroutine over the channels more (capacity 1) and next (unbuffered) with Go channel semantics - is model-checked for every query kind: " +
			"NeverBlocks (a consumer inside an API call always has an enabled step), Handshake (the VM is never used by both), Counted, StopsOnClose, ErrAfterDone, termination of the goroutine (liveness under weak fairness); " +
			"the negative configuration (Next without memory of the end) must block. (binding) TLC enumerates every call sequence of length N over {Next, Scan, Err, Close} x query kinds (and, for two Solutions of one " +
			"interpreter, every interleaving) from Solutions.tla; each is replayed on the real API under a per-call watchdog with the goals' output showing how far each search ran and the goroutine count compared " +
			"before/after; the harness is built with -race. distinct_nontrivial = distinct sequences containing a Next after the end, after an error or after Close",
		assume:  []string{"Scan is compared only where the statement defines the most recent answer (after a true Next, and after a Close following one)", "a call that does not return within 2 s counts as blocked"},
		trusted: []string{"TLC", "Solutions.tla / SolutionsImpl.tla", "Go race detector", "runtime.NumGoroutine"},
		run: func(c *checkCtx) {
			for _, cfg := range []string{"SolutionsImpl_0end.cfg", "SolutionsImpl_2end.cfg", "SolutionsImpl_2error.cfg", "SolutionsImpl_0inf.cfg", "SolutionsImpl_3end.cfg"} {
				c.mcHolds("SolutionsImpl", cfg, tlcOpts{workers: 4})
			}
			c.mcMustFail("SolutionsImpl", "SolutionsImpl_neg.cfg", tlcOpts{workers: 4})
			raceExe := c.buildVHAs("vh-race", true)
			for _, cfg := range []string{"Solutions_" + c.tier + ".cfg", "Solutions2_" + c.tier + ".cfg"} {
				r := c.mcHolds("Solutions", cfg, tlcOpts{})
				// a sample of the same cases under the race detector (it slows the interpreter down about tenfold)
				rc, rr := c.replay("solutions", r.cases, replayOpts{timeout: 60e9, exe: raceExe, every: 16})
				for i := range rr {
					if st, _ := rr[i]["status"].(string); st != "ok" {
						c.evaluations++
						c.mismatch("solutions(-race)", rc[i], rr[i])
					}
				}
				c.setExtra("cases_also_run_under_race_detector", len(rr))
				cases, results := c.replay("solutions", r.cases, replayOpts{timeout: 30e9})
				c.judge("solutions", cases, results, func(cs, res map[string]J) string {
					in, _ := res["input"].(string)
					ended := map[string]bool{}
					for _, x := range cs["hist"].([]J) {
						h := x.(map[string]J)
						it := strings.TrimSpace(string(rune('0' + int(h["it"].(float64)))))
						if h["op"] == "Next" && ended[it] {
							return in
						}
						if (h["op"] == "Next" && h["ret"] == "false") || h["op"] == "Close" {
							ended[it] = true
						}
					}
					return ""
				})
			}
			c.exhaustive = true
		},
	}
}
