package main

// Concurrency properties: C12 (Solutions.tla, SolutionsImpl.tla), C13 (Cancel.tla), C14 (Isolation.tla).

import (
	"os"
	"path/filepath"
	"strconv"
	"strings"
)

func init() {
	plans["C12"] = &plan{
		level: "model_checking",
		rule: "(design) SolutionsImpl.tla - consumer and search goroutine over the channels more (capacity 1) and next (unbuffered) with Go channel semantics - is model-checked for every query kind: " +
			"NeverBlocks (a consumer inside an API call always has an enabled step), Handshake (the VM is never used by both), Counted, StopsOnClose, ErrAfterDone, termination of the goroutine (liveness under weak fairness); " +
			"the negative configuration (Next without memory of the end) must block. (binding) TLC enumerates every call sequence of length N over {Next, Scan, Err, Close} x query kinds (and, for two Solutions of one " +
			"interpreter, every interleaving) from Solutions.tla; each is replayed on the real API under a per-call watchdog with the goals' output showing how far each search ran and the goroutine count compared " +
			"before/after; the harness is built with -race. distinct_nontrivial = distinct sequences containing a Next after the end, after an error or after Close",
		assume:  []string{"Scan is compared only where the statement defines the most recent answer (after a true Next, and after a Close following one)", "a call that does not return within 2 s counts as blocked"},
		trusted: []string{"TLC", "Solutions.tla / SolutionsImpl.tla", "Go race detector", "runtime.NumGoroutine"},
		run: func(c *checkCtx) {
			for _, cfg := range []string{"SolutionsImpl_0end.cfg", "SolutionsImpl_2end.cfg", "SolutionsImpl_2error.cfg", "SolutionsImpl_0inf.cfg", "SolutionsImpl_3end.cfg"} {
				c.mcHolds("SolutionsImpl", cfg, tlcOpts{workers: 4})
			}
			c.mcMustFail("SolutionsImpl", "SolutionsImpl_neg.cfg", tlcOpts{workers: 4})
			raceExe := c.buildVHAs("vh-race", true)
			for _, cfg := range []string{"Solutions_" + c.tier + ".cfg", "Solutions2_" + c.tier + ".cfg"} {
				r := c.mcHolds("Solutions", cfg, tlcOpts{})
				// a sample of the same cases under the race detector (it slows the interpreter down about tenfold)
				rc, rr := c.replay("solutions", r.cases, replayOpts{timeout: 60e9, exe: raceExe, every: 16})
				for i := range rr {
					if st, _ := rr[i]["status"].(string); st != "ok" {
						c.evaluations++
						c.mismatch("solutions(-race)", rc[i], rr[i])
					}
				}
				c.setExtra("cases_also_run_under_race_detector", len(rr))
				if strings.HasPrefix(cfg, "Solutions_") {
					// recorded schedules (hooks in Next, Close and the search goroutine) validated against SolutionsTrace.tla
					traces := c.recordTraces("soltrace", r.cases, replayOpts{timeout: 30e9, every: 8}, func(cs map[string]J) map[string]J { return map[string]J{} })
					c.validateTraces("soltrace", "SolutionsTrace", "SolutionsTrace.cfg", traces, traceOpts{deque: true})
					c.bindingSelfTest("SolutionsTrace", "SolutionsTrace.cfg", traces, 4)
				}
				cases, results := c.replay("solutions", r.cases, replayOpts{timeout: 30e9})
				c.judge("solutions", cases, results, func(cs, res map[string]J) string {
					in, _ := res["input"].(string)
					ended := map[string]bool{}
					for _, x := range cs["hist"].([]J) {
						h := x.(map[string]J)
						it := strings.TrimSpace(string(rune('0' + int(h["it"].(float64)))))
						if h["op"] == "Next" && ended[it] {
							return in
						}
						if (h["op"] == "Next" && h["ret"] == "false") || h["op"] == "Close" {
							ended[it] = true
						}
					}
					return ""
				})
			}
			c.exhaustive = true
		},
	}
}

func init() {
	plans["C13"] = &plan{
		level: "model_checking",
		rule: "(design) Cancel.tla - nested trampolines (poll the context, run one child, children may start nested trampolines that inherit the context), Cancel enabled at every instant - is model-checked " +
			"(NoNewWorkAfterCancel, AtMostOne, liveness: cancelled ~> returned); the configuration with a non-inherited context must fail. (binding) for 19 program shapes (repeat, length/2, between/3, direct and " +
			"mutual recursion, findall/3, \\\\+/1, catch/3, bagof/3 and nestings, answers then a loop, initialization goal, directive, consult; two finite ones) x 3 API entry points x every cancellation instant " +
			"'k-th poll' / 'k-th child' / already cancelled, the hooks cancel the context at exactly that instant and record every poll/child event with its nesting level; TLC validates each recorded trace " +
			"against CancelTrace.tla (the run may start at most the one child whose poll preceded the cancellation, must end with the context's error, and the interpreter must answer follow-up queries). " +
			"A wall-clock series cancels after random delays. distinct_nontrivial = distinct (shape, instant) traces in which the cancellation hit a running program",
		assume:  []string{"the nesting level of a hook event is the number of Promise.Force frames on the Go call stack", "a pending call that has not returned 3 s after the cancellation counts as not prompt"},
		trusted: []string{"TLC", "Cancel.tla / CancelTrace.tla", "the hooks fire at every trampoline iteration (dropping them makes the traces empty and the check fails as vacuous)"},
		run: func(c *checkCtx) {
			c.mcHolds("Cancel", "Cancel_mc.cfg", tlcOpts{workers: 4})
			c.mcMustFail("Cancel", "Cancel_neg.cfg", tlcOpts{workers: 4})
			n := 25
			if c.tier == "thorough" {
				n = 160
			}
			gen := filepath.Join(c.work, "cancel.ndjson")
			c.vhRun("gen", "cancel", "--n", strconv.Itoa(n), "--out", gen)
			traces := c.recordTraces("cancel", gen, replayOpts{timeout: 20e9, opts: map[string]string{"tmp": c.work}}, func(cs map[string]J) map[string]J {
				return map[string]J{"shape": cs["shape"], "at": cs["at"], "k": cs["k"]}
			})
			if len(traces) == 0 {
				infra("no cancellation trace was recorded (hooks not firing?)")
			}
			withEvents := 0
			for _, t := range traces {
				if len(t.lines) > 4 {
					withEvents++
				}
			}
			if withEvents*2 < len(traces) {
				infra("most cancellation traces are empty: the trampoline hooks do not fire")
			}
			c.validateTraces("cancel", "CancelTrace", "CancelTrace.cfg", traces, traceOpts{})
			c.wallClockCancel()
		},
	}
}

// wallClockCancel: cancellation after seeded random delays (0-50 ms), i.e. also inside a running child.
func (c *checkCtx) wallClockCancel() {
	n := 60
	if c.tier == "thorough" {
		n = 600
	}
	gen := filepath.Join(c.work, "cancelwall.ndjson")
	c.vhRun("gen", "cancelwall", "--seed", strconv.FormatInt(c.seed, 10), "--n", strconv.Itoa(n), "--out", gen)
	cases, results := c.replay("cancelwall", gen, replayOpts{timeout: 30e9, opts: map[string]string{"tmp": c.work}})
	c.judge("cancelwall", cases, results, func(cs, res map[string]J) string { in, _ := res["input"].(string); return in })
}

func init() {
	plans["C14"] = &plan{
		level: "model_checking",
		race:  true,
		rule: "(design) Isolation.tla - 3 goroutines interning atoms, reading atom names and drawing variables at the granularity lock / look up / write map / append name / unlock, read lock / read / unlock, " +
			"atomic add - model-checked for Interned, TableOK, NoTornRead, VarsOnce; without the lock and without the atomic add TLC must find counterexamples. IsolationVM.tla: an action of one interpreter changes " +
			"only that interpreter (Isolated). (binding, harness built with -race, a race report kills the worker) every history of N state-changing directives on interpreters A and B over 12 per-interpreter fields " +
			"(clauses by assert / consult / dynamic, operators, 4 flags, character conversion, stream alias, current output, current input) generated by TLC is executed sequentially and concurrently and every " +
			"field is then observed on A, B and an untouched control interpreter; 2..8 interpreters run generated programs concurrently and each must produce the answers, error and output it produces alone; the " +
			"log of the hook inside NewAtom's critical section is validated by TLC against IsolationTrace.tla. distinct_nontrivial = distinct histories / program sets",
		assume:  []string{"the race detector only reports races on the schedules that occur; GOMAXPROCS is the machine's"},
		trusted: []string{"TLC", "Isolation*.tla", "Go race detector"},
		run: func(c *checkCtx) {
			c.mcHolds("Isolation", "Isolation_mc.cfg", tlcOpts{})
			c.mcMustFail("Isolation", "Isolation_neg_lock.cfg", tlcOpts{workers: 4})
			c.mcMustFail("Isolation", "Isolation_neg_add.cfg", tlcOpts{workers: 4})
			r := c.mcHolds("IsolationVM", "IsolationVM_"+c.tier+".cfg", tlcOpts{workers: 4})
			os.Setenv("GORACE", "halt_on_error=1")
			cases, results := c.replay("isovm", r.cases, replayOpts{timeout: 60e9, opts: map[string]string{"tmp": c.work}})
			c.judge("isovm", cases, results, func(cs, res map[string]J) string { in, _ := res["input"].(string); return in })
			// open enumerations (current_prolog_flag/2, current_op/3, current_predicate/1) on A while B changes the same fields or
			// runs the same enumeration: IsolationEnum.tla (EnumStable)
			re := c.mcHolds("IsolationEnum", "IsolationEnum.cfg", tlcOpts{workers: 4})
			ec, er := c.replay("isovm", re.cases, replayOpts{timeout: 60e9, opts: map[string]string{"tmp": c.work}})
			c.judge("isovm", ec, er, func(cs, res map[string]J) string { in, _ := res["input"].(string); return in })
			// the flags as a state machine of their own (Flags.tla: every state x every call explored by TLC; random histories of
			// set_prolog_flag/2 with every kind of argument replayed on one interpreter - outcome class, enumeration, the effects of
			// unknown and double_quotes after every call - while a second, untouched interpreter must keep observing its defaults)
			c.mcHolds("Flags", "Flags_all.cfg", tlcOpts{})
			fwalks := "num=300"
			if c.tier == "thorough" {
				fwalks = "num=6000"
			}
			fw := c.mcHolds("Flags", "Flags_walk.cfg", tlcOpts{simulate: fwalks, depth: 16, workers: 1})
			fc, fr := c.replay("flags", fw.cases, replayOpts{})
			c.judge("flags", fc, fr, func(cs, res map[string]J) string { in, _ := res["input"].(string); return in })
			n := 40
			if c.tier == "thorough" {
				n = 500
			}
			gen := filepath.Join(c.work, "isoconc.ndjson")
			c.vhRun("gen", "isoconc", "--seed", strconv.FormatInt(c.seed, 10), "--n", strconv.Itoa(n), "--out", gen)
			// one worker: the interning log belongs to one process, and the programs inside a case already run concurrently
			// generated programs may create cyclic terms or explode (ISO: undefined); only a race report is attributable to C14
			c.crashDiscard = func(status, detail string) bool { return !strings.Contains(detail, "DATA RACE") }
			traces := c.recordTracesInit("isoconc", gen, replayOpts{timeout: 150e9, workers: 4})
			c.validateTraces("isoconc", "IsolationTrace", "IsolationTrace.cfg", traces, traceOpts{batches: 4})
			c.exhaustive = false
		},
	}
}
