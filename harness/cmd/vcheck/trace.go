package main

import (
	"bufio"
	"encoding/json"
	"fmt"
	"os"
	"path/filepath"
	"regexp"
	"strconv"
	"strings"
	"sync"
	"time"
)

// One recorded trace: the lines to validate and where it came from.
type rtrace struct {
	cs    map[string]J // the generated case (input)
	lines [][]byte     // init line + event lines
	input string
	idx   int
}

type traceOpts struct {
	batches  int
	timeout  time.Duration
	initLine func(cs map[string]J) map[string]J // builds the init line from the case
	deque    bool
	env      map[string]string
}

var reRejected = regexp.MustCompile(`REJECTED (\d+) (\d+)`)

var tlcMu sync.Mutex

// recordTraces runs the cases in record mode and turns the results into traces. Cases the real code crashed or hung
// on become a one-event trace ("crash"/"hang") that the trace spec accepts only if the reference run is not judged.
func (c *checkCtx) recordTraces(fam, casesFile string, o replayOpts, initLine func(cs map[string]J) map[string]J) []*rtrace {
	return c.recordTracesWith(fam, casesFile, o, initLine, nil)
}

func (c *checkCtx) recordTracesWith(fam, casesFile string, o replayOpts, initLine func(cs map[string]J) map[string]J, each func(i int, r map[string]J)) []*rtrace {
	if !c.confirming {
		c.lastRecord = &recordParams{fam: fam, o: o, initLine: initLine, fromResult: each != nil}
	}
	cases, results := c.replay(fam, casesFile, o)
	if c.discarded == nil {
		c.discarded = map[string]int{}
		c.nontrivial = map[string]bool{}
	}
	var out []*rtrace
	for i, r := range results {
		c.evaluations++
		st, _ := r["status"].(string)
		in, _ := r["input"].(string)
		tr := &rtrace{cs: cases[i], input: in, idx: i}
		if each != nil {
			each(i, r)
		}
		init := initLine(cases[i])
		init["ev"] = "init"
		b, _ := json.Marshal(init)
		tr.lines = append(tr.lines, b)
		switch st {
		case "recorded":
			evs, _ := r["events"].([]J)
			for _, e := range evs {
				eb, _ := json.Marshal(e)
				tr.lines = append(tr.lines, eb)
			}
		case "discard":
			why, _ := r["why"].(string)
			c.discarded["recorder:"+why]++
			continue
		case "crash", "hang":
			det, _ := r["detail"].(string)
			if c.crashDiscard != nil && c.crashDiscard(st, det) {
				c.discarded["recorder:"+st+" (not attributable to the property)"]++
				continue
			}
			tr.input = in + " [real interpreter: " + st + " " + oneLine(det, 200) + "]"
			eb, _ := json.Marshal(map[string]J{"ev": st})
			tr.lines = append(tr.lines, eb)
		case "mismatch":
			c.mismatch(fam, cases[i], r)
			continue
		default:
			infra("recorder protocol problem: %v", r)
		}
		out = append(out, tr)
	}
	return out
}

// recordTracesInit: like recordTraces, with the init line taken from the result ("init") instead of the case.
func (c *checkCtx) recordTracesInit(fam, casesFile string, o replayOpts) []*rtrace {
	inits := map[string]map[string]J{}
	traces := c.recordTracesWith(fam, casesFile, o, func(cs map[string]J) map[string]J { return map[string]J{} }, func(i int, r map[string]J) {
		if m, ok := r["init"].(map[string]J); ok {
			inits[strconv.Itoa(i)] = m
		}
	})
	for _, t := range traces {
		var first map[string]J
		_ = json.Unmarshal(t.lines[0], &first)
		first["size"], first["base"] = 0, 0
		if m, ok := inits[strconv.Itoa(t.idx)]; ok {
			for k, v := range m {
				first[k] = v
			}
		}
		t.lines[0], _ = json.Marshal(first)
	}
	return traces
}

// validateTraces has TLC check the recorded traces against the trace specification. Rejected traces become violations
// (or known findings); the rest of a batch is re-validated without them.
func (c *checkCtx) validateTraces(fam, module, cfg string, traces []*rtrace, o traceOpts) {
	if o.batches == 0 {
		o.batches = 14
	}
	if o.batches > len(traces) {
		o.batches = len(traces)
	}
	if o.batches == 0 {
		return
	}
	if o.timeout == 0 {
		o.timeout = 4 * time.Minute
	}
	batches := make([][]*rtrace, o.batches)
	k := 0
	for _, t := range traces {
		if last := string(t.lines[len(t.lines)-1]); len(t.lines) == 2 && (strings.Contains(last, `"crash"`) || strings.Contains(last, `"hang"`)) {
			// the real code died/hung: judged on its own (the reference run may be expensive), see below
			batches = append(batches, []*rtrace{t})
			continue
		}
		batches[k%o.batches] = append(batches[k%o.batches], t)
		k++
	}
	sem := make(chan struct{}, 14)
	var wg sync.WaitGroup
	var mu sync.Mutex
	var firstInfra interface{}
	for bi := range batches {
		wg.Add(1)
		go func(bi int) {
			defer wg.Done()
			sem <- struct{}{}
			defer func() { <-sem }()
			defer func() {
				if r := recover(); r != nil {
					mu.Lock()
					if firstInfra == nil {
						firstInfra = r
					}
					mu.Unlock()
				}
			}()
			batch := batches[bi]
			for round := 0; len(batch) > 0; round++ {
				file := filepath.Join(c.work, fmt.Sprintf("trace-%s-%d-%d.ndjson", module, bi, round))
				f, _ := os.Create(file)
				w := bufio.NewWriterSize(f, 1<<20)
				starts := make([]int, len(batch)) // 1-based line number of each trace's init line
				ln := 1
				for i, t := range batch {
					starts[i] = ln
					for _, l := range t.lines {
						w.Write(l)
						w.WriteByte('\n')
						ln++
					}
				}
				w.Flush()
				f.Close()
				env := map[string]string{"TRACE": file}
				for k, v := range o.env {
					env[k] = v
				}
				single := bi >= o.batches
				to := o.timeout
				if single {
					to = 40 * time.Second
				}
				res := c.tlc(module, cfg, tlcOpts{workers: 1, env: env, timeout: to, deque: o.deque, expectViolation: true, timeoutOK: single})
				if res.timedOut {
					mu.Lock()
					c.discarded["crash/hang of the real code where the reference run itself exceeds 40s (not judged)"]++
					mu.Unlock()
					break
				}
				ndisc := res.discards
				rejectedAt := -1
				for _, p := range res.prints {
					if m := reRejected.FindStringSubmatch(p); m != nil {
						rejectedAt, _ = strconv.Atoi(m[1])
					}
				}
				if len(res.errors) > 0 && rejectedAt < 0 {
					real := false
					for _, e := range res.errors {
						if !strings.Contains(e, "postcondition") && !strings.Contains(e, "Postcondition") {
							real = true
						}
					}
					if real {
						panic(infraError(fmt.Sprintf("TLC error while validating traces with %s: %s\n%s", module, strings.Join(res.errors, "; "), tailOf(res.outFile, 30))))
					}
				}
				mu.Lock()
				c.discarded["reference-not-judged(sto/budget/unspec)"] += ndisc
				mu.Unlock()
				if rejectedAt < 0 {
					mu.Lock()
					c.validated += len(batch)
					for _, t := range batch {
						if len(t.lines) > 3 {
							c.nontrivial[t.input] = true
						}
					}
					if len(c.samples) < 3 && len(batch) > 0 {
						t := batch[len(batch)/2]
						var evs []string
						for _, l := range t.lines[1:] {
							evs = append(evs, string(l))
						}
						c.samples = append(c.samples, map[string]J{"family": fam + " (recorded trace accepted by " + module + ")", "input": t.input, "recorded_events": oneLine(strings.Join(evs, " "), 1200)})
					}
					mu.Unlock()
					break
				}
				// the line that could not be matched is rejectedAt (the high-water mark is the next line to consume)
				bad := len(batch) - 1
				for i := range batch {
					if starts[i] > rejectedAt {
						bad = i - 1
						break
					}
				}
				t := batch[bad]
				if c.notReproduced(t, module, cfg, o) {
					mu.Lock()
					c.validated += bad
					c.discarded["rejected trace not reproduced when the case was recorded again alone with 10x watchdogs (not judged)"]++
					mu.Unlock()
					batch = batch[bad+1:]
					continue
				}
				off := rejectedAt - starts[bad]
				line := "(end of trace)"
				if off < len(t.lines) {
					line = string(t.lines[off])
				}
				mu.Lock()
				c.validated += bad + 1
				fromResult := c.lastRecord != nil && c.lastRecord.fromResult
				c.mismatch(fam+"-trace", t.cs, map[string]J{"status": "rejected", "input": t.input,
					"observed": map[string]J{"event_index": off, "event": line},
					"expected": "an event the specification " + module + " allows at this point (see replay)", "detail": "",
					// what --replay needs to record the case again and validate the new trace
					"trace_module": module, "trace_cfg": cfg, "record_family": fam, "init_from_result": fromResult})
				mu.Unlock()
				batch = batch[bad+1:]
				if round >= 4 {
					mu.Lock()
					c.discarded["unvalidated-after-5-rejections-in-batch"] += len(batch)
					mu.Unlock()
					break
				}
			}
		}(bi)
	}
	wg.Wait()
	if firstInfra != nil {
		panic(firstInfra)
	}
}

type recordParams struct {
	fam        string
	o          replayOpts
	initLine   func(cs map[string]J) map[string]J
	fromResult bool
}

// notReproduced records the case of a rejected trace again - alone, with the harness watchdogs ten times longer - and has TLC
// validate the new trace: a rejection that does not show again (a stall of a loaded machine recorded as a hang, a truncated
// recording) is no verdict. Only the first rejections are confirmed this way.
func (c *checkCtx) notReproduced(t *rtrace, module, cfg string, o traceOpts) bool {
	confirmMu.Lock()
	defer confirmMu.Unlock()
	if c.lastRecord == nil || c.confirmed >= 12 || c.confirming {
		return false
	}
	c.confirming = true
	defer func() { c.confirming = false }()
	c.confirmSeq++
	cf := filepath.Join(c.work, fmt.Sprintf("confirmtrace%d.ndjson", c.confirmSeq))
	cb, _ := json.Marshal(t.cs)
	_ = os.WriteFile(cf, append(cb, '\n'), 0o644)
	lr := c.lastRecord
	ro := lr.o
	ro.every, ro.workers = 0, 1
	if ro.timeout == 0 {
		ro.timeout = 20 * time.Second
	}
	ro.timeout *= 10
	ro.opts = map[string]string{"slow": "10"}
	for k, v := range lr.o.opts {
		ro.opts[k] = v
	}
	// (no shared counters are touched here: other batches are being validated at the same time)
	cases, results := c.replay(lr.fam, cf, ro)
	if len(results) != 1 {
		return false
	}
	r := results[0]
	if st, _ := r["status"].(string); st != "recorded" {
		return st == "discard" // crash / hang / mismatch again: reproduced; discarded by the recorder this time: not reproduced
	}
	init := map[string]J{}
	if lr.fromResult {
		init["size"], init["base"] = 0, 0
		if m, ok := r["init"].(map[string]J); ok {
			for k, v := range m {
				init[k] = v
			}
		}
	} else {
		init = lr.initLine(cases[0])
	}
	init["ev"] = "init"
	ib, _ := json.Marshal(init)
	again := []*rtrace{{lines: [][]byte{ib}}}
	evs, _ := r["events"].([]J)
	for _, e := range evs {
		eb, _ := json.Marshal(e)
		again[0].lines = append(again[0].lines, eb)
	}
	file := filepath.Join(c.work, fmt.Sprintf("confirmtrace%d.trace.ndjson", c.confirmSeq))
	f, _ := os.Create(file)
	for _, l := range again[0].lines {
		f.Write(l)
		f.Write([]byte("\n"))
	}
	f.Close()
	env := map[string]string{"TRACE": file}
	for k, v := range o.env {
		env[k] = v
	}
	res := c.tlc(module, cfg, tlcOpts{workers: 1, env: env, timeout: 10 * time.Minute, deque: o.deque, expectViolation: true, timeoutOK: true})
	for _, p := range res.prints {
		if reRejected.MatchString(p) {
			c.confirmed++
			return false // rejected again: reproduced
		}
	}
	return !res.timedOut && len(res.errors) == 0 || onlyPostcondition(res.errors)
}

func onlyPostcondition(errs []string) bool {
	for _, e := range errs {
		if !strings.Contains(e, "postcondition") && !strings.Contains(e, "Postcondition") {
			return false
		}
	}
	return true
}

var confirmMu sync.Mutex

// bindingSelfTest demonstrates that the trace specification really constrains the recorded fields: a copy of some
// accepted traces with one field of one event corrupted (an atom of a call goal or of an answer renamed) or with one
// event dropped must be rejected by TLC. If a corrupted trace is accepted the binding is vacuous: infrastructure error.
func (c *checkCtx) bindingSelfTest(module, cfg string, traces []*rtrace, max int) {
	c.bindingSelfTestWith(module, cfg, traces, max, nil)
}

// bindingSelfTestWith: corrupt (optional) replaces the default corruption of an event line; it returns the corrupted line and
// whether the line is suitable.
func (c *checkCtx) bindingSelfTestWith(module, cfg string, traces []*rtrace, max int, corrupt func(line string) (string, bool)) {
	var corrupted []*rtrace
	for _, t := range traces {
		if len(corrupted) >= max {
			break
		}
		if corrupt != nil {
			for k := 1; k < len(t.lines); k++ {
				if mod, ok := corrupt(string(t.lines[k])); ok {
					bad := append(append(append([][]byte{}, t.lines[:k]...), []byte(mod)), t.lines[k+1:]...)
					corrupted = append(corrupted, &rtrace{cs: t.cs, input: t.input, lines: bad})
					break
				}
			}
			continue
		}
		short := len(t.lines) < 4 // one record per trace (init line + record): only a field can be corrupted
		if short && (len(t.lines) != 2 || !strings.Contains(string(t.lines[1]), `["a","`)) {
			continue
		}
		k := 1
		if !short {
			k = 1 + len(corrupted)%(len(t.lines)-2) // an event line (not the init line, not the end line)
		}
		line := string(t.lines[k])
		var bad [][]byte
		switch {
		case (short || len(corrupted)%2 == 0) && strings.Contains(line, `["a","`):
			// rename the first atom of the event
			i := strings.Index(line, `["a","`) + 6
			j := i + strings.Index(line[i:], `"`)
			mod := line[:i] + "zz_corrupted" + line[j:]
			bad = append(append(append([][]byte{}, t.lines[:k]...), []byte(mod)), t.lines[k+1:]...)
		default:
			// drop the event
			bad = append(append([][]byte{}, t.lines[:k]...), t.lines[k+1:]...)
		}
		corrupted = append(corrupted, &rtrace{cs: t.cs, input: t.input, lines: bad})
	}
	if len(corrupted) == 0 {
		return
	}
	rejected := 0
	var wg sync.WaitGroup
	var mu sync.Mutex
	for i, t := range corrupted {
		wg.Add(1)
		go func(i int, t *rtrace) {
			defer wg.Done()
			defer func() { _ = recover() }()
			file := filepath.Join(c.work, fmt.Sprintf("selftest-%s-%d.ndjson", module, i))
			f, _ := os.Create(file)
			for _, l := range t.lines {
				f.Write(l)
				f.Write([]byte("\n"))
			}
			f.Close()
			res := c.tlc(module, cfg, tlcOpts{workers: 1, env: map[string]string{"TRACE": file}, timeout: 3 * time.Minute, expectViolation: true})
			for _, p := range res.prints {
				if reRejected.MatchString(p) {
					mu.Lock()
					rejected++
					mu.Unlock()
					break
				}
			}
		}(i, t)
	}
	wg.Wait()
	c.notes = append(c.notes, fmt.Sprintf("binding self-test: %d of %d corrupted traces (one renamed atom / one dropped event) rejected by %s", rejected, len(corrupted), module))
	// one corrupted event may fall into a stretch the reference run does not judge (after a sto/budget discard)
	if rejected+1 < len(corrupted) {
		infra("binding self-test: only %d of %d corrupted traces were rejected by %s - the trace specification does not constrain the recorded fields", rejected, len(corrupted), module)
	}
}
