package main

// ruleMore: what the stages added in the last rounds explore, appended to the plan's rule in the evidence file.
var ruleMore = map[string]string{
	"C01": " Added: GenHead mode disj (every head shape before a body compiled once per alternative) and the names f, g with two arities each; GenIndex (all 625 sequences of first arguments of a four-clause predicate, called with each kind of argument in turn); EnvPersist.tla (random branching histories of binds from TLC's simulator performed on engine.Env, EVERY version compared with the model after EVERY step).",
	"C03": " Added: GenCutHead (head shapes incl. repeated variables x cutting bodies x calls: a clause whose head does not unify cuts nothing); GenCut ALPHA = deep (a fact for the model, a recursion 2 500 levels deep for the replayer, between the call of a committing construct and its cut).",
	"C05": " Added: LoadGraph.tla (the loader as a stack machine over files that load and include each other; Terminates checked by TLC as a liveness property on every file graph; outcome, number of opens and visible facts replayed over an in-memory file system with a fuse).",
	"C06": " Added: the shape ptail (a partial list whose tail is any leaf or operator term).",
	"C08": " Added: integers near the 64-bit limits through six order-preserving stand-ins.",
	"C09": " Added: the same histories over q/0 (every fact a duplicate of every other).",
	"C10": " Added: GenClause mode init (the observing query as an initialization goal of the clause's own text, after binding variables named like the clause's); variables that occur in a later alternative only.",
	"C11": " Added: sub-spaces share (partially bound witnesses sharing a variable with the instances) and tail (a variable only in the tail of a partial list, in goal and template).",
	"C12": " Added: the kinds bare ('!.': the empty substitution) and anon (no named variable, two answers).",
	"C13": " Added: loops inside a file being loaded; the same load afterwards must define the file's clauses.",
	"C14": " Added: standard-order comparison of fresh atoms while others intern, with a watchdog; Flags.tla (set_prolog_flag/2 histories on one interpreter, a second one keeps observing its defaults).",
	"C15": " Added: the kind count (placeholders x arguments x trailers after the end token x Query / QuerySolution / Exec).",
	"C16": " Added: aliased call patterns (one variable in two unbound positions); a pass with list arguments whose spine runs through a variable bound earlier.",
	"C17": " Added: every case also with the terminals as a 2-byte and a 3-byte character and terminal lists as strings; [] as a member of a sequence next to an if-then.",
	"C20": " Added: declarations naming both predicates in one directive.",
}
