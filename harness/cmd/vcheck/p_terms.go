package main

// Term-level properties: C02 (unification), C08 (standard order, sorting), C16 (relational built-ins).

import (
	"os"
	"strconv"
	"strings"
	"sync"
)

func pairsRun(c *checkCtx) {
	r := c.mcHolds("GenPairs", "GenPairs_thorough.cfg", tlcOpts{})
	rounds := "3"
	if c.tier == "thorough" {
		rounds = "12"
	}
	cases, results := c.replay("pairs", r.cases, replayOpts{opts: map[string]string{"seed": strconv.FormatInt(c.seed, 10), "rounds": rounds}})
	c.judge("pairs", cases, results, func(cs, res map[string]J) string {
		if !jsonEqual(cs["x"], cs["y"]) {
			in, _ := res["input"].(string)
			return in
		}
		return ""
	})
}

func init() {
	plans["C02"] = &plan{
		level: "model_checking",
		rule: "TLC evaluates Terms.Unify on every ordered pair of a universe rich in lists (proper, partial, improper, nested, shared and repeated variables), numbers, atoms and compounds (incl. './1 and './3) and checks the " +
			"unifier laws on it (Sound, Symmetric, Idempotent, FailureKeeps, OCAgrees; TermsMC.tla: completeness and most-generality by brute force over all bounded substitutions); each pair is replayed with seeded " +
			"constructor paths for every list-valued subterm (bracket literal, '|' notation, './2, double-quoted text, append/3, atom_chars/2, =../2, findall/3, length/2) at every site: =/2 in both argument orders " +
			"(success, == afterwards, canonical binding vector = the model's mgu, all variables unbound after a failure), unify_with_occurs_check/2 in both orders, clause head via consult and via assertz. " +
			"distinct_nontrivial = distinct pairs of different terms",
		assume:  []string{"pairs subject to occurs check are judged only for unify_with_occurs_check/2 (ISO leaves =/2 undefined there)"},
		trusted: []string{"TLC", "Terms.tla (its laws are model-checked in the same run)", "harness term builder / canonicaliser"},
		run: func(c *checkCtx) {
			c.mcHolds("TermsMC", "TermsMC.cfg", tlcOpts{})
			pairsRun(c)
			c.exhaustive = true
		},
	}
	plans["C08"] = &plan{
		level: "model_checking",
		rule: "TLC evaluates Terms.Compare on every ordered pair of the same universe (variables, floats, integers incl. numerically equal ones, atoms with prefix-related names, compounds by arity / name / arguments, " +
			"lists in every shape) and checks Antisym, EqIffIdentical and Transitive (all triples) on it; each pair is replayed with seeded constructor paths: compare/3 must give the model's order, and ==, \\\\==, @<, @=<, @>, @>= " +
			"and the swapped comparison must agree with it inside the same call; pairs whose order hinges on two distinct unbound variables are only checked for that consistency. GenSort: every list of <= NL elements " +
			"over a 16-term universe -> sort/2, keysort/2 (stable) and setof/3 over member/2 must equal the model's result (Ascending, SameSet, KeyStable checked on the model). distinct_nontrivial = distinct pairs / lists of >= 2 elements",
		assume:  []string{"only the relative order of two distinct unbound variables is implementation dependent; lists whose sort order hinges on it are discarded (counted)"},
		trusted: []string{"TLC", "Terms.tla", "AtomsSorted lists the generators' atoms in character-code order"},
		run: func(c *checkCtx) {
			pairsRun(c)
			r := c.mcHolds("GenSort", "GenSort_"+c.tier+".cfg", tlcOpts{})
			cases, results := c.replay("sorts", r.cases, replayOpts{opts: map[string]string{"seed": strconv.FormatInt(c.seed, 10)}})
			c.judge("sorts", cases, results, func(cs, res map[string]J) string {
				if l, _ := cs["l"].([]J); len(l) >= 2 {
					in, _ := res["input"].(string)
					return in
				}
				return ""
			})
			c.exhaustive = true
		},
	}
}

func init() {
	plans["C16"] = &plan{
		level: "model_checking",
		rule: "Builtins.tla defines the relation of each of the 17 predicates declaratively over a universe generated from its wholes (atoms of <= 3 symbolic characters incl. a 2-byte and a 3-byte one, lists of <= 3 " +
			"elements, integers 0..3 and near the 64-bit limits, compounds of arity 1-2, lists as compounds); TLC enumerates every tuple masked by every instantiation pattern the predicate's modes admit and computes the " +
			"multiset of answers (SubsetLaw - instantiating an argument selects a sub-multiset -, ConcatLength, SubAtomSum, NthShift checked on the model); each call is run to exhaustion on the real interpreter and the " +
			"answers are compared as multisets (member/select/nth: one answer per position); for infinite modes the first 5 answers in order. distinct_nontrivial = distinct calls with at least one unbound argument",
		assume:  []string{"calls outside the modes (which must raise errors) belong to C05", "text is measured in characters: é and 日 are one character each"},
		trusted: []string{"TLC", "Builtins.tla", "the concretisation of symbolic characters"},
		run: func(c *checkCtx) {
			groups := [][]string{{"atom_length", "atom_concat", "atom_chars", "atom_codes", "char_code", "succ", "between"}, {"sub_atom"}, {"append", "length", "member", "select"}, {"nth0", "nth1", "functor", "arg", "univ"}}
			tmpl, err := os.ReadFile(root + "/spec/Builtins_T.cfg")
			if err != nil {
				infra("%v", err)
			}
			var wg sync.WaitGroup
			res := make([]*tlcResult, len(groups))
			var first interface{}
			var mu sync.Mutex
			for i, g := range groups {
				wg.Add(1)
				go func(i int, g []string) {
					defer wg.Done()
					defer func() {
						if r := recover(); r != nil {
							mu.Lock()
							if first == nil {
								first = r
							}
							mu.Unlock()
						}
					}()
					cfg := strings.ReplaceAll(string(tmpl), "@PREDS@", `"`+strings.Join(g, `", "`)+`"`)
					na, nl := "3", "3"
					if c.tier == "thorough" {
						na, nl = "4", "4"
					}
					cfg = strings.ReplaceAll(strings.ReplaceAll(cfg, "@NA@", na), "@NL@", nl)
					res[i] = c.mcHolds("Builtins", cfg, tlcOpts{workers: 4})
				}(i, g)
			}
			wg.Wait()
			if first != nil {
				panic(first)
			}
			for _, r := range res {
				// every call twice: the instantiated arguments written in the goal, and reached through variables bound by earlier goals
				// ... and with the list arguments written as chains of './2 cells (another run-time representation)
				for _, o := range []map[string]string{nil, {"indirect": "1"}, {"cells": "1", "indirect": "1"}, {"spine": "1"}} {
					cases, results := c.replay("builtins", r.cases, replayOpts{chunk: 8, opts: o})
					c.judge("builtins", cases, results, func(cs, res map[string]J) string {
						for _, a := range cs["pat"].([]J) {
							if a.([]J)[0] == "v" {
								in, _ := res["input"].(string)
								return in
							}
						}
						return ""
					})
				}
			}
			c.exhaustive = true
		},
	}
}
