package main

import (
	"bufio"
	"bytes"
	"crypto/sha1"
	"encoding/json"
	"fmt"
	"io"
	"os"
	"os/exec"
	"path/filepath"
	"regexp"
	"sort"
	"strconv"
	"strings"
	"time"
)

type J = interface{}

type violation struct {
	replay  string
	summary string
}

type checkCtx struct {
	id, tier string
	seed     int64
	plan     *plan
	start    time.Time
	work     string
	vh       string

	// evidence
	states, transitions int64
	validated           int // cases replayed on / traces recorded from the implementation and compared with the spec
	evaluations         int // all cases / executions
	nontrivial          map[string]bool
	discarded           map[string]int
	samples             []J
	tlcRuns             []J
	notes               []string
	exhaustive          bool
	extra               map[string]J

	crashDiscard func(status, detail string) bool // record mode: dead/stuck workers that are not judged

	sigCount   map[string]int // mismatches per signature (before known-finding classification)
	lastOpts   map[string]string
	confirmed  int
	confirmSeq int
	confirming bool
	lastRecord *recordParams
	violations []violation
	knownLines []string
	knownSeen  map[string]bool
	known      []knownEntry
}

type knownEntry struct {
	property string
	re       *regexp.Regexp
	what     string
}

var goEnv = []string{"GOFLAGS=-mod=mod", "GOPROXY=off", "GOSUMDB=off", "GOTOOLCHAIN=local", "CGO_ENABLED=" + cgo()}

func cgo() string {
	if v := os.Getenv("VCHECK_CGO"); v != "" {
		return v
	}
	return "1"
}

func (c *checkCtx) buildVH() {
	c.vh = c.buildVHAs("vh", c.plan.race)
}

// buildVHAs builds the harness under the given name, optionally with the race detector.
func (c *checkCtx) buildVHAs(name string, race bool) string {
	exe := filepath.Join(c.work, name)
	args := []string{"build", "-tags", "verif"}
	if race {
		args = append(args, "-race")
	}
	if alt := os.Getenv("VCHECK_REPO"); alt != "" {
		// development only (running the checks against a scratch worktree that carries a seeded change while other
		// checks use /repo): the registered commands never set it, so they always build from /repo's working tree.
		mod := filepath.Join(c.work, "alt.mod")
		src, _ := os.ReadFile(filepath.Join(root, "harness", "go.mod"))
		sum, _ := os.ReadFile(filepath.Join(alt, "go.sum"))
		if os.WriteFile(mod, []byte(strings.Replace(string(src), "=> /repo", "=> "+alt, 1)), 0o644) != nil ||
			os.WriteFile(filepath.Join(c.work, "alt.sum"), sum, 0o644) != nil {
			infra("cannot write %s", mod)
		}
		args = append(args, "-modfile", mod)
	}
	args = append(args, "-o", exe, "./cmd/vh")
	cmd := exec.Command("go", args...)
	cmd.Dir = filepath.Join(root, "harness")
	cmd.Env = append(os.Environ(), goEnv...)
	out, err := cmd.CombinedOutput()
	if err != nil {
		infra("cannot build the harness against /repo: %v\n%s", err, out)
	}
	return exe
}

// ---------------------------------------------------------------------------------------------
// TLC

type tlcOpts struct {
	workers         int
	env             map[string]string
	timeout         time.Duration
	simulate        string // e.g. "num=1000" ; empty = exhaustive
	depth           int
	deque           bool // depth-first queue (trace validation with branching)
	expectViolation bool
	timeoutOK       bool // a timeout is reported in the result instead of being an infrastructure error
}

type tlcResult struct {
	outFile   string
	generated int64
	distinct  int64
	cases     string // file with the CASE lines (ndjson), "" if none
	ncases    int
	violated  []string // names of violated invariants / properties
	errors    []string
	prints    []string // other PrintT lines
	discards  int      // number of "DISCARD ..." lines
	timedOut  bool
	ok        bool // "No error has been found" or simulation ended without error
	wall      float64
}

var tlcSeq int

var (
	reStates = regexp.MustCompile(`^(\d+) states generated, (\d+) distinct states found`)
	reViol   = regexp.MustCompile(`^Error: (Invariant|Action property|Temporal properties|Property) ?(\S*) (is|was|were) violated`)
)

func (c *checkCtx) specDir() string {
	d := filepath.Join(c.work, "spec")
	if _, err := os.Stat(d); err == nil {
		return d
	}
	_ = os.MkdirAll(d, 0o755)
	src := filepath.Join(root, "spec")
	ents, err := os.ReadDir(src)
	if err != nil {
		infra("spec dir: %v", err)
	}
	for _, e := range ents {
		if e.IsDir() {
			continue
		}
		b, err := os.ReadFile(filepath.Join(src, e.Name()))
		if err != nil {
			infra("%v", err)
		}
		_ = os.WriteFile(filepath.Join(d, e.Name()), b, 0o644)
	}
	return d
}

// tlc runs TLC on module with config cfg (a file name in /verif/spec, or literal text containing a newline).
func (c *checkCtx) tlc(module, cfg string, o tlcOpts) *tlcResult {
	tlcMu.Lock()
	tlcSeq++
	seq := tlcSeq
	dir := c.specDir()
	tlcMu.Unlock()
	if strings.Contains(cfg, "\n") {
		name := fmt.Sprintf("gen%d.cfg", seq)
		_ = os.WriteFile(filepath.Join(dir, name), []byte(cfg), 0o644)
		cfg = name
	}
	if o.workers == 0 {
		o.workers = 14
	}
	if o.timeout == 0 {
		o.timeout = 20 * time.Minute
		if c.tier == "thorough" {
			o.timeout = 45 * time.Minute // sized for a few minutes on an idle machine; the margin is for a loaded one
		}
	}
	meta := filepath.Join(c.work, fmt.Sprintf("meta%d", seq))
	// (java.io.tmpdir: TLC unpacks its standard modules into a fresh directory under the temporary directory on every run and leaves
	// it there; inside the run's work directory it goes away with it)
	jtmp := filepath.Join(c.work, "jtmp")
	_ = os.MkdirAll(jtmp, 0o755)
	args := []string{"-XX:+UseParallelGC", "-Xss512m", "-Dfile.encoding=UTF-8", "-Dsun.jnu.encoding=UTF-8", "-Djava.io.tmpdir=" + jtmp}
	if o.deque {
		args = append(args, "-Dtlc2.tool.queue.IStateQueue=StateDeque")
	}
	args = append(args, "-cp", "/opt/veriftools/tla/tla2tools.jar:/opt/veriftools/tla/CommunityModules-deps.jar", "tlc2.TLC",
		"-workers", strconv.Itoa(o.workers), "-metadir", meta, "-config", cfg, "-noGenerateSpecTE")
	if o.simulate != "" {
		args = append(args, "-simulate", o.simulate)
		if o.depth > 0 {
			args = append(args, "-depth", strconv.Itoa(o.depth))
		}
		args = append(args, "-seed", strconv.FormatInt(c.seed, 10))
	}
	args = append(args, module+".tla")
	cmd := exec.Command("java", args...)
	cmd.Dir = dir
	cmd.Env = os.Environ()
	for k, v := range o.env {
		cmd.Env = append(cmd.Env, k+"="+v)
	}
	res := &tlcResult{outFile: filepath.Join(c.work, fmt.Sprintf("tlc%d.out", seq))}
	outF, err := os.Create(res.outFile)
	if err != nil {
		infra("%v", err)
	}
	pr, pw := io.Pipe()
	cmd.Stdout = pw
	cmd.Stderr = pw
	t0 := time.Now()
	if err := cmd.Start(); err != nil {
		infra("cannot start TLC: %v", err)
	}
	timer := time.AfterFunc(o.timeout, func() { _ = cmd.Process.Kill() })
	done := make(chan struct{})
	var casesW *bufio.Writer
	var casesF *os.File
	go func() {
		defer close(done)
		r := bufio.NewReaderSize(pr, 1<<22)
		for {
			line, err := r.ReadBytes('\n')
			if len(line) > 0 {
				s := strings.TrimRight(string(line), "\r\n")
				if strings.HasPrefix(s, "\"CASE ") {
					u, uerr := strconv.Unquote(s)
					if uerr != nil {
						res.errors = append(res.errors, "cannot unquote CASE line: "+uerr.Error())
					} else {
						if casesW == nil {
							res.cases = filepath.Join(c.work, fmt.Sprintf("cases%d.ndjson", seq))
							casesF, _ = os.Create(res.cases)
							casesW = bufio.NewWriterSize(casesF, 1<<20)
						}
						casesW.WriteString(u[5:])
						casesW.WriteByte('\n')
						res.ncases++
					}
				} else {
					outF.Write(line)
					if m := reStates.FindStringSubmatch(s); m != nil {
						res.generated, _ = strconv.ParseInt(m[1], 10, 64)
						res.distinct, _ = strconv.ParseInt(m[2], 10, 64)
					} else if m := reViol.FindStringSubmatch(s); m != nil {
						res.violated = append(res.violated, m[2])
					} else if strings.HasPrefix(s, "Error:") || strings.Contains(s, "java.lang.") && strings.Contains(s, "Error") {
						res.errors = append(res.errors, s)
					} else if strings.Contains(s, "No error has been found") {
						res.ok = true
					} else if strings.HasPrefix(s, "\"DISCARD") {
						res.discards++
					} else if strings.HasPrefix(s, "\"") || strings.HasPrefix(s, "<<") {
						if len(res.prints) < 200 {
							res.prints = append(res.prints, s)
						}
					}
				}
			}
			if err != nil {
				return
			}
		}
	}()
	werr := cmd.Wait()
	timer.Stop()
	pw.Close()
	<-done
	outF.Close()
	if casesW != nil {
		casesW.Flush()
		casesF.Close()
	}
	res.wall = time.Since(t0).Seconds()
	_ = os.RemoveAll(meta)
	tlcMu.Lock()
	defer tlcMu.Unlock()
	c.states += res.distinct
	c.transitions += res.generated
	run := map[string]J{"module": module, "config": cfg, "generated": res.generated, "distinct": res.distinct, "cases": res.ncases, "wall_s": round1(res.wall)}
	if o.simulate != "" {
		run["mode"] = "simulate " + o.simulate
	}
	if len(c.tlcRuns) < 40 {
		c.tlcRuns = append(c.tlcRuns, run)
	}
	if o.simulate != "" && len(res.errors) == 0 && len(res.violated) == 0 {
		res.ok = true // simulation ends by reaching num=; TLC prints no "No error" line
	}
	if time.Since(t0) >= o.timeout && o.timeoutOK {
		res.timedOut = true
		return res
	}
	if time.Since(t0) >= o.timeout {
		infra("TLC timed out after %s on %s/%s", o.timeout, module, cfg)
	}
	if !o.expectViolation && !res.ok && len(res.violated) == 0 {
		tail := tailOf(res.outFile, 25)
		infra("TLC failed on %s/%s (exit %v): %s\n%s", module, cfg, werr, strings.Join(res.errors, "; "), tail)
	}
	return res
}

func tailOf(path string, n int) string {
	b, _ := os.ReadFile(path)
	lines := strings.Split(string(b), "\n")
	if len(lines) > n {
		lines = lines[len(lines)-n:]
	}
	return strings.Join(lines, "\n")
}

func round1(f float64) float64 { return float64(int64(f*10+0.5)) / 10 }

// mcHolds runs an exhaustive TLC check whose invariants/properties must hold on the model. A violation here is a
// defect of the model or of the design, not of the code: it is reported as an infrastructure error (exit 2).
func (c *checkCtx) mcHolds(module, cfg string, o tlcOpts) *tlcResult {
	r := c.tlc(module, cfg, o)
	if len(r.violated) > 0 || !r.ok {
		infra("model check %s/%s: %v violated on the model itself (see DESIGN.md §5: a model counterexample is not a verdict about the code)\n%s",
			module, cfg, r.violated, tailOf(r.outFile, 40))
	}
	return r
}

// mcMustFail runs a negative configuration (sensitivity constant switched) that must produce a counterexample:
// the vacuity guard for the invariants.
func (c *checkCtx) mcMustFail(module, cfg string, o tlcOpts) {
	o.expectViolation = true
	r := c.tlc(module, cfg, o)
	if len(r.violated) == 0 {
		infra("negative configuration %s/%s found no counterexample: the invariant is vacuous", module, cfg)
	}
	c.notes = append(c.notes, fmt.Sprintf("negative config %s: counterexample to %v found as required", cfg, r.violated))
}

// ---------------------------------------------------------------------------------------------
// replay

type replayOpts struct {
	exe     string // harness binary (default: the one built without -race)
	every   int    // replay only every k-th case (0/1 = all)
	chunk   int
	sortKey string // sort the cases by the JSON of this field first (locality)
	workers int
	timeout time.Duration
	opts    map[string]string
}

func (c *checkCtx) vhRun(args ...string) { c.vhRunExe(c.vh, args...) }

func (c *checkCtx) vhRunExe(exe string, args ...string) {
	cmd := exec.Command(exe, args...)
	cmd.Env = os.Environ()
	out, err := cmd.CombinedOutput()
	if err != nil {
		infra("vh %v: %v\n%s", args, err, out)
	}
}

// replay runs the cases of file through family fam and returns (case, result) pairs.
func (c *checkCtx) replay(fam, casesFile string, o replayOpts) (cases, results []map[string]J) {
	if !c.confirming {
		c.lastOpts = o.opts // recorded in the replay file of a violation, so that --replay runs the case under the same options
	}
	if o.workers == 0 {
		o.workers = 14
	}
	if o.timeout == 0 {
		o.timeout = 20 * time.Second
	}
	if o.every > 1 {
		cs := readNd(casesFile)
		f, _ := os.Create(casesFile + ".sample")
		w := bufio.NewWriterSize(f, 1<<20)
		for i := int(c.seed) % o.every; i < len(cs); i += o.every {
			b, _ := json.Marshal(cs[i])
			w.Write(b)
			w.WriteByte('\n')
		}
		w.Flush()
		f.Close()
		casesFile = casesFile + ".sample"
	}
	if o.sortKey != "" {
		cs := readNd(casesFile)
		keys := make([]string, len(cs))
		idx := make([]int, len(cs))
		for i, m := range cs {
			b, _ := json.Marshal(m[o.sortKey])
			keys[i] = string(b)
			idx[i] = i
		}
		sort.SliceStable(idx, func(a, b int) bool { return keys[idx[a]] < keys[idx[b]] })
		f, _ := os.Create(casesFile + ".sorted")
		w := bufio.NewWriterSize(f, 1<<20)
		for _, i := range idx {
			b, _ := json.Marshal(cs[i])
			w.Write(b)
			w.WriteByte('\n')
		}
		w.Flush()
		f.Close()
		casesFile = casesFile + ".sorted"
	}
	out := casesFile + ".res"
	args := []string{"replay", fam, "--cases", casesFile, "--out", out, "--workers", strconv.Itoa(o.workers), "--timeout", o.timeout.String()}
	for k, v := range o.opts {
		args = append(args, "--opt", k+"="+v)
	}
	if o.chunk > 0 {
		args = append(args, "--chunk", strconv.Itoa(o.chunk))
	}
	exe := c.vh
	if o.exe != "" {
		exe = o.exe
	}
	c.vhRunExe(exe, args...)
	cases = readNd(casesFile)
	results = readNd(out)
	if len(cases) != len(results) {
		infra("replay %s: %d cases but %d results", fam, len(cases), len(results))
	}
	return
}

func readNd(path string) []map[string]J {
	f, err := os.Open(path)
	if err != nil {
		infra("%v", err)
	}
	defer f.Close()
	r := bufio.NewReaderSize(f, 1<<22)
	var out []map[string]J
	for {
		line, err := r.ReadBytes('\n')
		line = bytes.TrimSpace(line)
		if len(line) > 0 {
			var m map[string]J
			if jerr := json.Unmarshal(line, &m); jerr != nil {
				infra("bad ndjson in %s: %v: %.200s", path, jerr, line)
			}
			out = append(out, m)
		}
		if err != nil {
			return out
		}
	}
}

// judge classifies the results of a replay. status: ok | mismatch | discard | crash | hang (the last two are
// produced by the worker pool). crash/hang count as mismatches: the real code died or wedged on the case.
func (c *checkCtx) judge(fam string, cases, results []map[string]J, nontrivialKey func(cs, res map[string]J) string) {
	if c.nontrivial == nil {
		c.nontrivial = map[string]bool{}
		c.discarded = map[string]int{}
	}
	for i, r := range results {
		c.evaluations++
		st, _ := r["status"].(string)
		switch st {
		case "ok":
			c.validated++
			if nontrivialKey != nil {
				if k := nontrivialKey(cases[i], r); k != "" {
					c.nontrivial[k] = true
				}
			}
			if len(c.samples) < 3 && (i%(len(results)/3+1) == 0) {
				c.samples = append(c.samples, sampleOf(fam, cases[i], r))
			}
		case "discard":
			why, _ := r["why"].(string)
			c.discarded[why]++
		case "badcase", "badresult":
			infra("harness protocol problem in family %s: %v", fam, r)
		default:
			c.validated++
			// A verdict comes from behaviour of the real code that can be reproduced: the first mismatches are run again, alone,
			// with every watchdog of the harness ten times longer. What does not show again (a stall of a loaded machine taken
			// for a hang, a worker killed from outside) is counted as not reproduced and is no violation.
			if c.confirmed < 12 {
				if !c.confirm(fam, cases[i]) {
					c.validated--
					c.discarded["mismatch not reproduced when the case ran again alone with 10x watchdogs (not judged)"]++
					continue
				}
				c.confirmed++
			}
			c.mismatch(fam, cases[i], r)
		}
	}
}

// confirm runs one case again, alone, in a worker of its own, with the harness watchdogs scaled by ten.
func (c *checkCtx) confirm(fam string, cs map[string]J) bool {
	c.confirmSeq++
	cf := filepath.Join(c.work, fmt.Sprintf("confirm%d.ndjson", c.confirmSeq))
	cb, _ := json.Marshal(cs)
	_ = os.WriteFile(cf, append(cb, '\n'), 0o644)
	opts := map[string]string{"slow": "10"}
	for k, v := range c.lastOpts {
		opts[k] = v
	}
	c.confirming = true
	_, res := c.replay(fam, cf, replayOpts{workers: 1, timeout: 200 * time.Second, opts: opts})
	c.confirming = false
	if len(res) != 1 {
		return true
	}
	// ("recorded": the recording family no longer reports the mismatch; the recorded trace is validated like every other)
	st, _ := res[0]["status"].(string)
	return st != "ok" && st != "discard" && st != "recorded"
}

func sampleOf(fam string, cs, r map[string]J) J {
	if in, ok := r["input"].(string); ok {
		ev, _ := json.Marshal(cs["events"])
		return map[string]J{"family": fam, "input": in, "spec_predicts": oneLine(string(ev), 1200), "result": r["status"]}
	}
	b, _ := json.Marshal(cs)
	s := string(b)
	if len(s) > 1500 {
		s = s[:1500] + "...(truncated)"
	}
	return map[string]J{"family": fam, "case": s, "result": r["status"]}
}

func (c *checkCtx) mismatch(fam string, cs, r map[string]J) {
	input, _ := r["input"].(string)
	if input == "" {
		short := map[string]J{}
		for k, v := range cs {
			if k != "iso" && k != "allowed" && k != "events" {
				short[k] = v
			}
		}
		b, _ := json.Marshal(short)
		input = oneLine(string(b), 400)
	}
	obs, _ := json.Marshal(r["observed"])
	exp, _ := json.Marshal(r["expected"])
	st, _ := r["status"].(string)
	det, _ := r["detail"].(string)
	text := fmt.Sprintf("%s => status=%s observed=%s expected=%s %s", input, st, obs, exp, oneLine(det, 300))
	if sig, ok := r["sig"].(string); ok {
		text = "sig=" + sig + " " + text
		if c.sigCount == nil {
			c.sigCount = map[string]int{}
		}
		c.sigCount[sig]++
	}
	for _, k := range c.known {
		if k.property == c.id && k.re.MatchString(text) {
			line := fmt.Sprintf("KNOWN-FINDING: property=%s %s", c.id, k.what)
			if c.knownSeen == nil {
				c.knownSeen = map[string]bool{}
			}
			if !c.knownSeen[line] {
				c.knownSeen[line] = true
				c.knownLines = append(c.knownLines, line)
			}
			c.discarded["known-finding"]++
			return
		}
	}
	h := sha1.Sum([]byte(fam + "\x00" + input))
	dir := filepath.Join(root, "replays", c.id)
	_ = os.MkdirAll(dir, 0o755)
	path := filepath.Join(dir, fmt.Sprintf("%x.json", h[:6]))
	// (the first 200 violations of a run get a replay file - the report prints the first 12 -, the others are only counted: a
	// change that breaks a property often breaks it in ten thousand cases)
	if len(c.violations) < 200 {
		b, _ := json.MarshalIndent(map[string]J{"property": c.id, "family": fam, "case": cs, "result": r, "seed": c.seed, "tier": c.tier, "opts": c.lastOpts}, "", " ")
		_ = os.WriteFile(path, b, 0o644)
	}
	c.violations = append(c.violations, violation{replay: path, summary: text})
}

func (c *checkCtx) replayOne(path string) int {
	b, err := os.ReadFile(path)
	if err != nil {
		infra("%v", err)
	}
	var rf struct {
		Family string
		Case   map[string]J
		Opts   map[string]string
		Result map[string]J
	}
	if err := json.Unmarshal(b, &rf); err != nil {
		infra("bad replay file: %v", err)
	}
	cf := filepath.Join(c.work, "one.ndjson")
	cb, _ := json.Marshal(rf.Case)
	_ = os.WriteFile(cf, append(cb, '\n'), 0o644)
	if strings.HasSuffix(rf.Family, "-trace") {
		// a rejected recorded trace: record the case again on the current tree and have TLC validate the new trace
		fam, module, cfg := strings.TrimSuffix(rf.Family, "-trace"), "EngineTrace", "EngineTrace.cfg"
		if m, ok := rf.Result["trace_module"].(string); ok {
			module, _ = rf.Result["trace_module"].(string), m
			cfg, _ = rf.Result["trace_cfg"].(string)
			fam, _ = rf.Result["record_family"].(string)
		}
		ro := replayOpts{workers: 1, timeout: 60 * time.Second, opts: rf.Opts}
		var traces []*rtrace
		switch fromResult, _ := rf.Result["init_from_result"].(bool); {
		case fromResult:
			traces = c.recordTracesInit(fam, cf, ro)
		case fam == "engine":
			traces = c.recordTraces(fam, cf, ro, engineInitLine)
		default:
			traces = c.recordTraces(fam, cf, ro, func(map[string]J) map[string]J { return map[string]J{} })
		}
		c.confirmed = 1 << 30 // a replay is the confirmation
		c.validateTraces(fam, module, cfg, traces, traceOpts{})
		for _, t := range traces {
			for _, l := range t.lines {
				fmt.Println(string(l))
			}
		}
		if len(c.violations) > 0 || len(c.knownLines) > 0 {
			fmt.Printf("VIOLATION property=%s replay=%s\n", c.id, path)
			return 1
		}
		fmt.Println("the recorded trace is accepted by " + module + ".tla")
		return 0
	}
	_, res := c.replay(rf.Family, cf, replayOpts{workers: 1, opts: rf.Opts})
	rb, _ := json.MarshalIndent(res[0], "", " ")
	fmt.Println(string(rb))
	// ("recorded": a recording family reported the mismatch while recording - a hang, a crash -, and records the case now)
	if st, _ := res[0]["status"].(string); st != "ok" && st != "discard" && st != "recorded" {
		fmt.Printf("VIOLATION property=%s replay=%s\n", c.id, path)
		return 1
	}
	return 0
}

// ---------------------------------------------------------------------------------------------
// known findings

func (c *checkCtx) loadKnown() {
	f, err := os.Open(filepath.Join(root, "known_findings.txt"))
	if err != nil {
		return
	}
	defer f.Close()
	sc := bufio.NewScanner(f)
	sc.Buffer(make([]byte, 1<<20), 1<<20)
	reLine := regexp.MustCompile(`^known: property=(\S+) match=("(?:[^"\\]|\\.)*") (.*)$`)
	for sc.Scan() {
		line := strings.TrimSpace(sc.Text())
		if !strings.HasPrefix(line, "known:") {
			continue // "fixed:" entries and comments suppress nothing
		}
		m := reLine.FindStringSubmatch(line)
		if m == nil {
			infra("known_findings.txt: cannot parse %q", line)
		}
		pat, err := strconv.Unquote(m[2])
		if err != nil {
			infra("known_findings.txt: %v in %q", err, line)
		}
		re, err := regexp.Compile(pat)
		if err != nil {
			infra("known_findings.txt: %v in %q", err, line)
		}
		c.known = append(c.known, knownEntry{property: m[1], re: re, what: m[3]})
	}
}

// ---------------------------------------------------------------------------------------------
// evidence

func (c *checkCtx) writeEvidence() {
	cov := map[string]J{
		"evaluations":                   c.evaluations,
		"distinct_nontrivial":           len(c.nontrivial),
		"rule":                          c.plan.rule + ruleMore[c.id],
		"samples":                       c.samples,
		"states":                        c.states,
		"transitions":                   c.transitions,
		"traces_validated_against_impl": c.validated,
		"exhaustive":                    c.exhaustive,
		"tlc_runs":                      c.tlcRuns,
		"discarded":                     c.discarded,
		"notes":                         c.notes,
		"known_findings_reported":       c.knownLines,
		"trusted_base":                  c.plan.trusted,
	}
	for k, v := range c.extra {
		cov[k] = v
	}
	if c.samples == nil {
		cov["samples"] = []J{}
	}
	assume := c.plan.assume
	if assume == nil {
		assume = []string{}
	}
	ev := map[string]J{
		"property_id": c.id,
		"tier":        c.tier,
		"seed":        c.seed,
		"level":       c.plan.level,
		"coverage":    cov,
		"assumptions": assume,
		"wall_s":      round1(time.Since(c.start).Seconds()),
		"violations":  len(c.violations),
	}
	b, _ := json.MarshalIndent(ev, "", " ")
	if !regexp.MustCompile(`^C[0-9]{2}$`).MatchString(c.id) {
		return // development plans (TVX) are no properties: no evidence file
	}
	evdir := filepath.Join(root, "evidence")
	if os.Getenv("VCHECK_REPO") != "" {
		evdir = filepath.Join(root, ".work", "evidence-alt")
	}
	_ = os.MkdirAll(evdir, 0o755)
	if err := os.WriteFile(filepath.Join(evdir, c.id+".json"), append(b, '\n'), 0o644); err != nil {
		infra("cannot write evidence: %v", err)
	}
}

func (c *checkCtx) setExtra(k string, v J) {
	if c.extra == nil {
		c.extra = map[string]J{}
	}
	c.extra[k] = v
}
