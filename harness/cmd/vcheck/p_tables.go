package main

import (
	"encoding/json"
	"fmt"
	"os"
	"strconv"
	"strings"
	"sync"
)

// Small state machines: C18 (OpTable.tla), C19 (Stream.tla), C20 (Loader.tla).

func init() {
	plans["C18"] = &plan{
		level: "model_checking",
		rule: "transition coverage: for every operator table over the tracked names {a, b, ',', '|', '[]', '{}'} reachable within D op/3 calls and every one of the 1 920 calls " +
			"(8 priorities incl. out-of-range/unbound/non-integer x 10 specifier arguments x 24 operator arguments incl. lists with invalid, unbound and special members, partial and improper lists) " +
			"OpTable.tla gives the set of errors ISO allows and the table afterwards (TableOK, FailedUnchanged invariants); the replayer brings a live interpreter to the table, performs the call and compares " +
			"success/error, the table through current_op/3 in every instantiation pattern, the untouched rest of the table, and read/write probes. distinct_nontrivial = distinct (table, call) pairs whose call changes the table or must raise an error",
		assume:  []string{"the error class is compared with the ISO set only as drift (C18 speaks about the table and about success/failure)"},
		trusted: []string{"TLC", "OpTable.tla as transcription of ISO 8.14.3/8.14.4", "the canonical op/3 sequence used to reach a start table is verified with current_op/3 before each probe"},
		run: func(c *checkCtx) {
			c.mcMustFail("OpTable", "OpTable_neg.cfg", tlcOpts{})
			if c.tier == "thorough" {
				c.mcHolds("OpTable", "OpTable_mc.cfg", tlcOpts{timeout: 30 * 60e9})
			}
			r := c.mcHolds("OpTable", "OpTable_gen_quick.cfg", tlcOpts{})
			cases, results := c.replay("optable", r.cases, replayOpts{sortKey: "tab", chunk: 64})
			drift := map[string]int{}
			c.judge("optable", cases, results, func(cs, res map[string]J) string {
				if d, ok := res["drift"].([]J); ok {
					for _, x := range d {
						drift[x.(string)]++
					}
				}
				errs, _ := cs["errs"].([]J)
				if len(errs) > 0 || !jsonEqual(cs["tab"], cs["after"]) {
					in, _ := res["input"].(string)
					return in
				}
				return ""
			})
			// histories: random walks of 25 op/3 calls from the initial table (TLC simulation of OpTableWalk.tla), replayed call by call
			walks := "num=400"
			if c.tier == "thorough" {
				walks = "num=12000"
			}
			w := c.mcHolds("OpTableWalk", "OpTable_walk.cfg", tlcOpts{simulate: walks, depth: 26, workers: 1})
			cs2, rs2 := c.replay("optable", w.cases, replayOpts{})
			c.judge("optable", cs2, rs2, func(cs, res map[string]J) string { in, _ := res["input"].(string); return in })
			syntaxStage(c)
			c.exhaustive = true
			var ds []string
			for k, n := range drift {
				if len(ds) < 20 {
					ds = append(ds, fmt.Sprintf("%dx %s", n, k))
				}
			}
			c.setExtra("error_class_drift", ds)
		},
	}
}

// syntaxStage is the reading half of "reading and writing use exactly that table": GenSyntax.tla enumerates token sequences
// under named operator tables and gives, with the ISO term grammar of Syntax.tla, the terms each sequence denotes; the real
// parser must read ISO text as the grammar says and must not accept anything the table does not license.
func syntaxStage(c *checkCtx) {
	type cfg struct {
		table, alpha string
		n            int
	}
	cfgs := []cfg{{"default", "ops", 5}, {"user", "ops", 4}, {"same", "ops", 4}, {"both", "ops", 5}, {"default", "punct", 4}}
	if c.tier == "thorough" {
		cfgs = []cfg{{"default", "ops", 6}, {"user", "ops", 5}, {"same", "ops", 5}, {"both", "ops", 6}, {"default", "punct", 5}, {"both", "punct", 4}}
	}
	tmpl, err := os.ReadFile(root + "/spec/GenSyntax_T.cfg")
	if err != nil {
		infra("%v", err)
	}
	res := make([]*tlcResult, len(cfgs))
	var wg sync.WaitGroup
	var first interface{}
	var mu sync.Mutex
	for i, k := range cfgs {
		wg.Add(1)
		go func(i int, k cfg) {
			defer wg.Done()
			defer func() {
				if r := recover(); r != nil {
					mu.Lock()
					if first == nil {
						first = r
					}
					mu.Unlock()
				}
			}()
			text := strings.NewReplacer("@TABLE@", k.table, "@ALPHA@", k.alpha, "@NMAX@", strconv.Itoa(k.n)).Replace(string(tmpl))
			res[i] = c.mcHolds("GenSyntax", text, tlcOpts{workers: 4})
		}(i, k)
	}
	wg.Wait()
	if first != nil {
		panic(first)
	}
	nobs, obs := 0, []string{}
	defer func() {
		c.setExtra("syntax_misreadings_outside_the_property", map[string]J{"count": nobs, "examples": obs})
		if nobs > 0 {
			fmt.Printf("NOTE: %d token sequences are read as a term that they denote under no operator table (a parser misreading that does not involve the table, outside C18), e.g. %s\n", nobs, obs[0])
		}
	}()
	for i, r := range res {
		table := ""
		for _, pr := range r.prints {
			var u string
			if json.Unmarshal([]byte(pr), &u) == nil && strings.HasPrefix(u, "TABLEDEF ") {
				table = u[len("TABLEDEF "):]
			}
		}
		if table == "" {
			infra("GenSyntax (%v) did not print its table", cfgs[i])
		}
		cases, results := c.replay("syntax", r.cases, replayOpts{chunk: 256, opts: map[string]string{"table": table, "tabname": cfgs[i].table}})
		c.judge("syntax", cases, results, func(cs, rs map[string]J) string {
			if o, ok := rs["observation"].(string); ok {
				nobs++
				if len(obs) < 12 {
					obs = append(obs, o)
				}
			}
			if nt, _ := rs["nontrivial"].(bool); nt {
				in, _ := rs["input"].(string)
				return in
			}
			return ""
		})
	}
}

func init() {
	plans["C19"] = &plan{
		level: "model_checking",
		rule: "TLC enumerates every sequence of N operations over {get_char, peek_char, get_byte, peek_byte, read, at_end_of_stream} on every source of a curated set (and, thorough, every source of <= 3 " +
			"characters over {a . space % newline 2-byte char}) x {text, binary} x {error, eof_code, reset}; Stream.tla gives after each operation the result, the byte position and the allowed end_of_stream " +
			"(CursorOK, Delivered, PositionIsBytes, PeekKeeps, PastSticks checked in every state); each behaviour is replayed on a file opened by open/4 and on a host-provided reader, as consecutive goals of one " +
			"conjunction, separated by a user-defined predicate, and one query per operation. distinct_nontrivial = distinct behaviours in which some operation consumes input or meets the end",
		assume: []string{"end_of_stream before end_of_file was delivered may be not or at when nothing remains (left open by the property)", "after end_of_file on an eof_action(reset) stream end_of_stream is not constrained",
			"read_term is modelled for names, layout, % comments and the end token only"},
		trusted: []string{"TLC", "Stream.tla", "the operating system's file contents = the bytes the harness wrote"},
		run: func(c *checkCtx) {
			c.mcMustFail("Stream", "Stream_neg.cfg", tlcOpts{workers: 4})
			cfgs := []string{"Stream_quick.cfg", "Stream_all3_quick.cfg"}
			if c.tier == "thorough" {
				cfgs = []string{"Stream_thorough.cfg", "Stream_all3.cfg"}
			}
			for _, cfg := range cfgs {
				r := c.mcHolds("Stream", cfg, tlcOpts{})
				cases, results := c.replay("stream", r.cases, replayOpts{opts: map[string]string{"tmp": c.work}, chunk: 16})
				c.judge("stream", cases, results, func(cs, res map[string]J) string {
					for _, h := range cs["hist"].([]J) {
						if r := h.(map[string]J)["res"]; r == "item" || r == "term" || r == "eof" {
							in, _ := res["input"].(string)
							return in
						}
					}
					return ""
				})
			}
			// histories: random walks of 12 operations over random sources of up to 8 symbols (StreamWalk.tla, TLC simulation)
			walks := "num=400"
			if c.tier == "thorough" {
				walks = "num=8000"
			}
			w := c.mcHolds("StreamWalk", "StreamWalk.cfg", tlcOpts{simulate: walks, depth: 40, workers: 1})
			wc, wr := c.replay("stream", w.cases, replayOpts{opts: map[string]string{"tmp": c.work}, chunk: 16})
			c.judge("stream", wc, wr, func(cs, res map[string]J) string { in, _ := res["input"].(string); return in })
			// output side: StreamOut.tla
			o := c.mcHolds("StreamOut", "StreamOut_"+c.tier+".cfg", tlcOpts{})
			oc, or := c.replay("streamout", o.cases, replayOpts{opts: map[string]string{"tmp": c.work}, chunk: 16})
			c.judge("streamout", oc, or, func(cs, res map[string]J) string { in, _ := res["input"].(string); return in })
			c.exhaustive = true
		},
	}
}

func init() {
	plans["C20"] = &plan{
		level: "model_checking",
		rule: "TLC enumerates every sequence of texts (items: clause of p/1 or q/1, dynamic/discontiguous/multifile declaration, initialization goal, directive, syntax fault, non-callable clause - " +
			"hence a fault of each kind at every position) loaded one after the other; Loader.tla (stage / commit state machine; Invisible, AllOrNothing, SourceOrder, ReplaceUnlessMultifile, DirectivesInPlace " +
			"checked in every state) predicts after each load the result class, the output order and the clause list of both predicates, which the replayer observes through Exec and by calling. " +
			"distinct_nontrivial = distinct text sequences in which some load fails or replaces/extends an earlier definition",
		assume:  []string{"include/1, ensure_loaded/1 and directives with database side effects are outside the property's quantifier"},
		trusted: []string{"TLC", "Loader.tla"},
		run: func(c *checkCtx) {
			cfgs := []string{"Loader_23.cfg", "Loader_long.cfg", "Loader_pair.cfg"}
			if c.tier == "thorough" {
				cfgs = []string{"Loader_33.cfg", "Loader_three.cfg", "Loader_long.cfg", "Loader_pair.cfg"}
			}
			for _, cfg := range cfgs {
				r := c.mcHolds("Loader", cfg, tlcOpts{})
				cases, results := c.replay("loader", r.cases, replayOpts{})
				c.judge("loader", cases, results, func(cs, res map[string]J) string {
					obs := cs["obs"].([]J)
					for i, o := range obs {
						om := o.(map[string]J)
						if om["err"] != "none" {
							in, _ := res["input"].(string)
							return in
						}
						if i > 0 {
							prev := obs[i-1].(map[string]J)
							if !jsonEqual(prev["p"], om["p"]) && len(prev["p"].(map[string]J)["cls"].([]J)) > 0 {
								in, _ := res["input"].(string)
								return in
							}
						}
					}
					return ""
				})
			}
			c.exhaustive = true
		},
	}
}
