// Command vcheck is the check driver: `vcheck <property id> [--tier quick|thorough] [--replay path]`.
//
// For one property it (1) builds the conformance harness `vh` against /repo's current working tree with
// -tags verif, (2) runs TLC on the property's TLA+ modules (model checking of the design, generation of the
// behaviours the specification allows), (3) replays those behaviours on the real interpreter and/or records
// traces of the real interpreter and has TLC validate them against the specification, (4) classifies every
// disagreement (known finding / violation) and (5) writes /verif/evidence/<id>.json.
//
// Exit status: 0 the property held on everything explored (KNOWN-FINDING lines possible), 1 at least one
// "VIOLATION property=<id> replay=<path>" line was printed, 2 infrastructure problem (never a verdict).
package main

import (
	"fmt"
	"os"
	"path/filepath"
	"sort"
	"strconv"
	"strings"
	"time"
)

const root = "/verif"

type plan struct {
	level   string // evidence level
	race    bool   // build the harness with -race
	run     func(c *checkCtx)
	rule    string
	assume  []string
	trusted []string
}

var plans = map[string]*plan{}

func main() {
	if len(os.Args) < 2 {
		var ids []string
		for id := range plans {
			ids = append(ids, id)
		}
		sort.Strings(ids)
		fmt.Fprintln(os.Stderr, "usage: vcheck <id> [--tier quick|thorough] [--replay path]; ids:", strings.Join(ids, " "))
		os.Exit(2)
	}
	id := os.Args[1]
	tier := os.Getenv("VERIF_TIER")
	replay := ""
	for i := 2; i < len(os.Args); i++ {
		switch os.Args[i] {
		case "--tier":
			i++
			tier = os.Args[i]
		case "--replay":
			i++
			replay = os.Args[i]
		case "--keep":
			keepWork = true
		}
	}
	if tier != "thorough" {
		tier = "quick"
	}
	seed := int64(1)
	if s := os.Getenv("VERIF_SEED"); s != "" {
		if v, err := strconv.ParseInt(s, 10, 64); err == nil {
			seed = v
		}
	}
	p, ok := plans[id]
	if !ok {
		fmt.Fprintln(os.Stderr, "unknown property", id)
		os.Exit(2)
	}
	c := &checkCtx{id: id, tier: tier, seed: seed, plan: p, start: time.Now()}
	c.work = filepath.Join(root, ".work", fmt.Sprintf("%s-%d", id, os.Getpid()))
	if err := os.MkdirAll(c.work, 0o755); err != nil {
		fmt.Fprintln(os.Stderr, err)
		os.Exit(2)
	}
	code := c.main(replay)
	if !keepWork {
		_ = os.RemoveAll(c.work)
	}
	os.Exit(code)
}

var keepWork bool

func (c *checkCtx) main(replay string) (code int) {
	defer func() {
		if r := recover(); r != nil {
			if ie, ok := r.(infraError); ok {
				fmt.Printf("INFRA-ERROR property=%s %s\n", c.id, string(ie))
				code = 2
				return
			}
			panic(r)
		}
	}()
	c.loadKnown()
	c.buildVH()
	if replay != "" {
		return c.replayOne(replay)
	}
	c.plan.run(c)
	c.writeEvidence()
	for _, k := range c.knownLines {
		fmt.Println(k)
	}
	if len(c.sigCount) > 0 {
		fmt.Printf("mismatches by signature: %v\n", c.sigCount)
	}
	if len(c.violations) > 0 {
		shown := 0
		for _, v := range c.violations {
			if shown < 12 {
				fmt.Printf("VIOLATION property=%s replay=%s\n", c.id, v.replay)
				fmt.Printf("  %s\n", oneLine(v.summary, 600))
			}
			shown++
		}
		fmt.Printf("%s: %d violation(s) in %d evaluations (%.0fs)\n", c.id, len(c.violations), c.evaluations, time.Since(c.start).Seconds())
		return 1
	}
	fmt.Printf("%s: held on everything explored: %d evaluations, %d TLC states, %d cases/traces checked against the implementation, %d known finding(s) (%.0fs)\n",
		c.id, c.evaluations, c.states, c.validated, len(c.knownLines), time.Since(c.start).Seconds())
	return 0
}

type infraError string

func infra(format string, args ...interface{}) {
	panic(infraError(fmt.Sprintf(format, args...)))
}

func oneLine(s string, max int) string {
	s = strings.ReplaceAll(s, "\n", " | ")
	if len(s) > max {
		s = s[:max] + "..."
	}
	return s
}
