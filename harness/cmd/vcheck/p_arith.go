package main

import (
	"encoding/json"
	"os"
	"path/filepath"
	"strconv"
)

// C07 (Arith.tla, BigInt.tla), C15 (Bridge.tla), C06 (RoundTrip), C05 (Robust).

func init() {
	plans["C07"] = &plan{
		level: "model_checking",
		rule: "BigInt.tla (exact integers as base-10^4 limb sequences: compare, add, subtract, multiply, binary long division, truncating/flooring quotient and remainder, powers, 64-bit two's complement bit operations) is " +
			"model-checked against TLC's native arithmetic on all operand pairs of a range and against algebraic laws on large values; Arith.tla gives the exact outcome of every integer functor; TLC enumerates the complete " +
			"boundary grid (0, +-1, +-2, +-3, +-7, +-2^31+-1, +-2^32+-1, +-2^53+-1, +-2^62+-1, max-{0,1,2}, min+{0,1,2}) for every unary functor, every pair for every binary functor and comparison, powers and shifts, " +
			"and each evaluation is replayed through `X is Expr` / `E1 op E2`. Floats: see the float part of the evidence. distinct_nontrivial = distinct evaluations whose exact result or an operand lies beyond 2^53",
		assume:  []string{"overflowing shifts, shift counts outside 0..63 and negative exponents with |base| > 1 are left open, as in the statement", "accuracy of transcendental float functions is outside the family (no reference inside TLA+)"},
		trusted: []string{"TLC", "BigInt.tla (model-checked against native arithmetic)", "Go's float64 operations as the IEEE-754 reference for float cases", "math/big for rendering limb sequences as decimal text"},
		run: func(c *checkCtx) {
			c.mcHolds("BigIntMC", "BigIntMC.cfg", tlcOpts{})
			r := c.mcHolds("Arith", "Arith_"+c.tier+".cfg", tlcOpts{})
			cases, results := c.replay("arith", r.cases, replayOpts{chunk: 16})
			c.judge("arith", cases, results, func(cs, res map[string]J) string {
				big := func(v J) bool { m, _ := v.(map[string]J); mag, _ := m["mag"].([]J); return len(mag) >= 4 }
				out, _ := cs["out"].(map[string]J)
				if big(cs["x"]) || big(cs["y"]) || big(out["v"]) {
					in, _ := res["input"].(string)
					return in
				}
				return ""
			})
			// floats: inputs (with Go's IEEE result class and the exact decomposition) -> ArithF.tla classifies / computes -> replay
			n := 200
			if c.tier == "thorough" {
				n = 4000
			}
			gen := filepath.Join(c.work, "arithf.ndjson")
			c.vhRun("gen", "arithf", "--seed", strconv.FormatInt(c.seed, 10), "--n", strconv.Itoa(n), "--out", gen)
			fr := c.mcHolds("ArithF", "ArithF.cfg", tlcOpts{env: map[string]string{"INPUT": gen}})
			ins := readNd(gen)
			byID := map[int]map[string]J{}
			for _, in := range ins {
				byID[int(in["id"].(float64))] = in
			}
			joined := filepath.Join(c.work, "arithf-cases.ndjson")
			jf, _ := os.Create(joined)
			for _, o := range readNd(fr.cases) {
				b, _ := json.Marshal(map[string]J{"in": byID[int(o["id"].(float64))], "out": o["out"]})
				jf.Write(append(b, '\n'))
			}
			jf.Close()
			fc, fres := c.replay("arithf", joined, replayOpts{chunk: 16})
			c.judge("arithf", fc, fres, func(cs, res map[string]J) string { in, _ := res["input"].(string); return in })
			c.exhaustive = true
		},
	}
}
