package main

import (
	"encoding/json"
	"fmt"
	"os"
	"path/filepath"
	"strconv"
	"strings"
)

// C07 (Arith.tla, BigInt.tla), C15 (Bridge.tla), C06 (RoundTrip), C05 (Robust).

func init() {
	plans["C07"] = &plan{
		level: "model_checking",
		rule: "BigInt.tla (exact integers as base-10^4 limb sequences: compare, add, subtract, multiply, binary long division, truncating/flooring quotient and remainder, powers, 64-bit two's complement bit operations) is " +
			"model-checked against TLC's native arithmetic on all operand pairs of a range and against algebraic laws on large values; Arith.tla gives the exact outcome of every integer functor; TLC enumerates the complete " +
			"boundary grid (0, +-1, +-2, +-3, +-7, +-2^31+-1, +-2^32+-1, +-2^53+-1, +-2^62+-1, max-{0,1,2}, min+{0,1,2}) for every unary functor, every pair for every binary functor and comparison, powers and shifts, " +
			"and each evaluation is replayed through `X is Expr` / `E1 op E2`. Floats: see the float part of the evidence. distinct_nontrivial = distinct evaluations whose exact result or an operand lies beyond 2^53",
		assume:  []string{"overflowing shifts, shift counts outside 0..63 and negative exponents with |base| > 1 are left open, as in the statement", "accuracy of transcendental float functions is outside the family (no reference inside TLA+)"},
		trusted: []string{"TLC", "BigInt.tla (model-checked against native arithmetic)", "Go's float64 operations as the IEEE-754 reference for float cases", "math/big for rendering limb sequences as decimal text"},
		run: func(c *checkCtx) {
			c.mcHolds("BigIntMC", "BigIntMC.cfg", tlcOpts{})
			r := c.mcHolds("Arith", "Arith_"+c.tier+".cfg", tlcOpts{})
			cases, results := c.replay("arith", r.cases, replayOpts{chunk: 16})
			c.judge("arith", cases, results, func(cs, res map[string]J) string {
				big := func(v J) bool { m, _ := v.(map[string]J); mag, _ := m["mag"].([]J); return len(mag) >= 4 }
				out, _ := cs["out"].(map[string]J)
				if big(cs["x"]) || big(cs["y"]) || big(out["v"]) {
					in, _ := res["input"].(string)
					return in
				}
				return ""
			})
			// floats: inputs (with Go's IEEE result class and the exact decomposition) -> ArithF.tla classifies / computes -> replay
			n := 200
			if c.tier == "thorough" {
				n = 4000
			}
			gen := filepath.Join(c.work, "arithf.ndjson")
			c.vhRun("gen", "arithf", "--seed", strconv.FormatInt(c.seed, 10), "--n", strconv.Itoa(n), "--out", gen)
			fr := c.mcHolds("ArithF", "ArithF.cfg", tlcOpts{env: map[string]string{"INPUT": gen}})
			ins := readNd(gen)
			byID := map[int]map[string]J{}
			for _, in := range ins {
				byID[int(in["id"].(float64))] = in
			}
			joined := filepath.Join(c.work, "arithf-cases.ndjson")
			jf, _ := os.Create(joined)
			for _, o := range readNd(fr.cases) {
				b, _ := json.Marshal(map[string]J{"in": byID[int(o["id"].(float64))], "out": o["out"]})
				jf.Write(append(b, '\n'))
			}
			jf.Close()
			fc, fres := c.replay("arithf", joined, replayOpts{chunk: 16})
			c.judge("arithf", fc, fres, func(cs, res map[string]J) string { in, _ := res["input"].(string); return in })
			c.exhaustive = true
		},
	}
}

func init() {
	plans["C15"] = &plan{
		level: "model_checking",
		rule: "Bridge.tla defines ToTerm(value, double_quotes) and ScanInt; TLC enumerates every string of <= NS characters over 17 character classes (letter, digit, space, both quotes, backslash, '.', ':', '-', newline, NUL, '?', " +
			"'%', '(', 2-byte, 3-byte and non-BMP characters) x {codes, chars, atom}, numbers and nested slices, and every boundary integer of each width x every destination width. For a value case the placeholder's term is compared " +
			"structurally with the model's (character codes, no text), `X = ?, Y = <literal>, X == Y` is checked with the harness's own escaper, the answer is scanned back into the original Go type (exact or error) and both " +
			"argument-count mismatches must be errors. For a scan case the destination must hold exactly the value when it fits and Scan must return an error when it does not. distinct_nontrivial = distinct cases containing a " +
			"syntax-relevant character or an out-of-range integer",
		assume:  []string{"an error is always an allowed outcome of Scan (the statement says exact or error)", "the text \"?\" is not used as a literal under double_quotes=atom (any atom equal to the placeholder is a placeholder for the parser)"},
		trusted: []string{"TLC", "Bridge.tla", "the harness's 20-line escaper for the literal side of the law"},
		run: func(c *checkCtx) {
			r := c.mcHolds("Bridge", "Bridge_"+c.tier+".cfg", tlcOpts{})
			cases, results := c.replay("bridge", r.cases, replayOpts{chunk: 16})
			c.judge("bridge", cases, results, func(cs, res map[string]J) string {
				in, _ := res["input"].(string)
				if cs["kind"] == "scanint" {
					if f, _ := cs["fits"].(bool); !f {
						return in
					}
					return ""
				}
				b, _ := json.Marshal(cs["val"])
				for _, code := range []string{"39", "34", "92", "46", "58", "10", "0", "63", "37", "40"} {
					if strings.Contains(string(b), ","+code+"]") || strings.Contains(string(b), "["+code+",") || strings.Contains(string(b), "["+code+"]") || strings.Contains(string(b), ","+code+",") {
						return in
					}
				}
				return ""
			})
			c.exhaustive = true
		},
	}
}

func init() {
	plans["C06"] = &plan{
		level: "model_checking",
		rule: "RoundTrip.tla enumerates the structure bracketing and spacing depend on: every term shape of depth <= 2 over 17 atom classes, 7 number classes, variables, 6 prefix / 13 infix / 2 postfix operator functors (default and " +
			"user-defined, an atom that is prefix and infix at once, ',' and '|'), compounds, lists, partial lists, curly terms - every (context operator, operand kind) pair on the left and on the right - x 5 operator tables reached by " +
			"op/3 histories x 4 writers x 3 double_quotes settings (quick: a covering selection of the combinations). The replayer concretises each class with seeded samples, builds the term without the reader, writes it, appends ' .' " +
			"and reads it back in the same interpreter: the law Variant(Read(Write(T)), T), floats bit for bit. writetok (code -> spec): a sample of the cases is written by the real writer, cut into tokens by the real lexer (accessor hook) and TLC checks with SyntaxTrace.tla that the term is one the ISO term grammar of Syntax.tla gives these tokens under the table in force - the writer is held to the grammar, not only to what this reader accepts. numtrip: number_codes/2, number_chars/2 and writeq/read_term on seeded random doubles of all exponents, hard cases and " +
			"64-bit integers. distinct_nontrivial = distinct cases with an operator functor or an atom that needs quoting",
		assume:  []string{"'$VAR'(N) terms are not generated (excluded by the property)", "characters and float digits are reached through sampled concretisations of lexical classes, not enumerated (TLA+ has neither)"},
		trusted: []string{"TLC", "RoundTrip.tla (enumeration and law; the oracle is the law itself)", "atom_codes/2 and =../2 as the parser-free way of building the term"},
		run: func(c *checkCtx) {
			r := c.mcHolds("RoundTrip", "RoundTrip_"+c.tier+".cfg", tlcOpts{})
			rounds := "2"
			if c.tier == "thorough" {
				rounds = "4"
			}
			cases, results := c.replay("roundtrip", r.cases, replayOpts{chunk: 16, opts: map[string]string{"seed": strconv.FormatInt(c.seed, 10), "rounds": rounds}})
			c.judge("roundtrip", cases, results, func(cs, res map[string]J) string {
				b, _ := json.Marshal(cs["term"])
				if strings.Contains(string(b), `"pre"`) || strings.Contains(string(b), `"inf"`) || strings.Contains(string(b), `"post"`) || strings.Contains(string(b), "quoted") {
					in, _ := res["input"].(string)
					return in
				}
				return ""
			})
			// atoms of arbitrary text: every name over a character alphabet up to a length, in every kind of position
			type at struct{ nc, nlen int }
			ats := []at{{27, 2}, {12, 3}}
			if c.tier == "thorough" {
				ats = []at{{27, 3}, {12, 4}}
			}
			tmplA, err := os.ReadFile(root + "/spec/AtomText_T.cfg")
			if err != nil {
				infra("%v", err)
			}
			for _, a := range ats {
				ar := c.mcHolds("AtomText", strings.NewReplacer("@NC@", strconv.Itoa(a.nc), "@NLEN@", strconv.Itoa(a.nlen)).Replace(string(tmplA)), tlcOpts{})
				ac, ares := c.replay("roundtrip", ar.cases, replayOpts{chunk: 64, opts: map[string]string{"seed": strconv.FormatInt(c.seed, 10), "rounds": "1"}})
				c.judge("roundtrip", ac, ares, func(cs, res map[string]J) string { in, _ := res["input"].(string); return in })
			}
			// the writer against the grammar: what was written, cut into tokens by the real lexer, must denote the term under the
			// table in force (Syntax.tla), independently of what the real reader makes of it
			every := 8
			if c.tier == "thorough" {
				every = 3
			}
			traces := c.recordTraces("writetok", r.cases, replayOpts{every: every, chunk: 64, opts: map[string]string{"seed": strconv.FormatInt(c.seed, 10)}},
				func(cs map[string]J) map[string]J { return map[string]J{} })
			c.validateTraces("writetok", "SyntaxTrace", "SyntaxTrace.cfg", traces, traceOpts{})
			c.bindingSelfTest("SyntaxTrace", "SyntaxTrace.cfg", traces, 4)
			n := 20000
			if c.tier == "thorough" {
				n = 300000
			}
			gen := filepath.Join(c.work, "numtrip.ndjson")
			c.vhRun("gen", "numtrip", "--seed", strconv.FormatInt(c.seed, 10), "--n", strconv.Itoa(n), "--out", gen)
			nc, nr := c.replay("numtrip", gen, replayOpts{chunk: 256})
			c.judge("numtrip", nc, nr, func(cs, res map[string]J) string { in, _ := res["input"].(string); return in })
			c.exhaustive = false
		},
	}
}

func init() {
	plans["C05"] = &plan{
		level: "exploration",
		rule: "Robust.tla states the outcome contract (answers | fail | error with an ISO formal term; never crash, hang, panic residue) and TLC enumerates the two input spaces: every sequence of <= NT token kinds out of 19 " +
			"(so every truncation of every well-formed text of that size), each concretised with two sets of token texts, with and without separating layout, and handed to Query, Exec and read_term/2; and every tuple of 20 argument " +
			"shapes for arities 0..3 (quick: 9 shapes for arity 3), near-uniform tuples for arities 4..8, each applied to EVERY registered predicate of that arity (list read from the code; halt/1 excluded). Cases run in worker " +
			"sub-processes with a 64 MB stack limit: a dead worker is a crash, a call that does not return within 2 s a hang. distinct_nontrivial = distinct cases in which at least one call ended in an error",
		assume: []string{"cyclic terms and inputs beyond the memory bound are excluded as the property says", "arbitrary byte strings are covered only through token sequences and their truncations, not enumerated byte-wise",
			"file-touching predicates run in a scratch directory"},
		trusted: []string{"TLC (enumeration)", "Robust.tla (contract and ISO formal list)", "the operating system reporting a dead worker process"},
		run: func(c *checkCtx) {
			r := c.mcHolds("Robust", "Robust_"+c.tier+".cfg", tlcOpts{})
			tmp := filepath.Join(c.work, "scratch")
			_ = os.MkdirAll(tmp, 0o755)
			cases, results := c.replay("robust", r.cases, replayOpts{timeout: 120e9, opts: map[string]string{"tmp": tmp}, chunk: 4})
			c.judge("robust", cases, results, func(cs, res map[string]J) string { in, _ := res["input"].(string); return in })
			lexerStage(c)
			// files that load and include each other (LoadGraph.tla: the loader terminates on every file graph; outcome, opens and
			// visible facts replayed over an in-memory file system)
			lg := c.mcHolds("LoadGraph", "LoadGraph_"+c.tier+".cfg", tlcOpts{})
			gc, gr := c.replay("loadgraph", lg.cases, replayOpts{chunk: 256})
			c.judge("loadgraph", gc, gr, func(cs, res map[string]J) string { in, _ := res["input"].(string); return in })
			c.exhaustive = true
		},
	}
}

// lexerStage: every text up to a length over four character families is cut into tokens by the real lexer (a dead or stuck
// worker is a crash / hang: C05) and the tokens are compared with Lexer.tla, the ISO token syntax. A difference in the tokens
// is no violation of a listed property (C05 speaks of crashes, hangs and the shape of errors): it is reported as an observation.
func lexerStage(c *checkCtx) {
	type fam struct {
		name string
		n    int
	}
	fams := []fam{{"names", 4}, {"numbers", 4}, {"quotes", 4}, {"comments", 5}, {"unicode", 3}}
	if c.tier == "thorough" {
		fams = []fam{{"names", 5}, {"numbers", 5}, {"quotes", 5}, {"comments", 6}, {"unicode", 4}}
	}
	tmpl, err := os.ReadFile(root + "/spec/GenLexer_T.cfg")
	if err != nil {
		infra("%v", err)
	}
	nobs, obs := 0, []string{}
	for _, f := range fams {
		r := c.mcHolds("GenLexer", strings.NewReplacer("@FAMILY@", f.name, "@NMAX@", strconv.Itoa(f.n)).Replace(string(tmpl)), tlcOpts{})
		cases, results := c.replay("lexer", r.cases, replayOpts{chunk: 512})
		c.judge("lexer", cases, results, func(cs, rs map[string]J) string {
			if o, ok := rs["observation"].(string); ok {
				nobs++
				if len(obs) < 12 {
					obs = append(obs, o)
				}
			}
			if nt, _ := rs["nontrivial"].(bool); nt {
				in, _ := rs["input"].(string)
				return in
			}
			return ""
		})
	}
	c.setExtra("token_sequences_differing_from_Lexer_tla", map[string]J{"count": nobs, "examples": obs})
	if nobs > 0 {
		fmt.Printf("NOTE: %d texts are cut into other tokens than Lexer.tla (ISO 6.4) prescribes (not a violation of a listed property), e.g. %s\n", nobs, obs[0])
	}
}
