package main

import (
	"crypto/sha1"
	"encoding/json"
	"fmt"
	"strings"
)

// caseKeyIfContains returns a digest of the case input (without the expected events) if its JSON contains sub.
func caseKeyIfContains(cs map[string]J, sub string) string {
	m := map[string]J{}
	for k, v := range cs {
		if k != "events" {
			m[k] = v
		}
	}
	b, _ := json.Marshal(m)
	if sub != "" && !strings.Contains(string(b), sub) {
		return ""
	}
	return fmt.Sprintf("%x", sha1.Sum(b))
}

func jsonEqual(a, b J) bool {
	x, _ := json.Marshal(a)
	y, _ := json.Marshal(b)
	return string(x) == string(y)
}
