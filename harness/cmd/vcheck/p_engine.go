package main

import "strings"

// Engine family: C01 C03 C04 C09 C11 (specification: Terms.tla, Engine.tla; generators Gen*.tla; trace spec EngineTrace.tla).

func init() {
	plans["C03"] = &plan{
		level: "model_checking",
		rule: "TLC enumerates every control skeleton p/1 (clause bodies over an 11-goal alphabet incl. !, call(!), call((g,!)), \\+, once, if-then-else, " +
			"nested and top-level disjunction) x calling context and runs Engine.tla on it (CutExact, BarrierOK checked in every state); each terminal " +
			"behaviour is replayed on the real interpreter and compared event by event (call ports via the Arrive hook, answers, end). " +
			"distinct_nontrivial = distinct (body1, body2, context) cases whose behaviour executes at least one cut",
		assume:  []string{"the call hook reports every call port (checked by the selftest: dropping it makes the replay disagree)", "generated programs stay inside the vocabulary modelled by Engine.tla"},
		trusted: []string{"TLC", "Engine.tla as the reference semantics", "harness renderer/canonicaliser (jt)"},
		run: func(c *checkCtx) {
			cfg := "GenCut_quick.cfg"
			if c.tier == "thorough" {
				cfg = "GenCut_thorough.cfg"
			}
			r := c.mcHolds("GenCut", cfg, tlcOpts{})
			if r.ncases == 0 {
				infra("GenCut produced no cases")
			}
			cases, results := c.replay("engine", r.cases, replayOpts{})
			c.judge("engine", cases, results, func(cs, res map[string]J) string {
				if in, _ := res["input"].(string); strings.Contains(in[strings.Index(in, "p(V1)"):], "!") {
					return in
				}
				return ""
			})
			c.exhaustive = true
		},
	}
	plans["C04"] = &plan{
		level: "model_checking",
		rule: "TLC enumerates every skeleton [g(A),] catch((catch(G1,C1,R1), K), C2, R2) with G1 a conjunction over {generator, probe, throw(b1), throw(b(X)), fail, !, " +
			"X is foo, undefined procedure, \\+ throw, findall(_,throw,_)}, 4 inner catchers, 3 recoveries, 5 continuations running after the inner catch exited, 3 outer catchers; " +
			"Engine.tla predicts the events (UnwindExact, CatchIdsUnique checked in every state) and the real interpreter must reproduce them. " +
			"distinct_nontrivial = distinct queries in which a ball is actually thrown (some event after the throw differs from plain success)",
		assume:  []string{"the call hook reports every call port", "the context argument of error/2 is implementation defined and not compared"},
		trusted: []string{"TLC", "Engine.tla as the reference semantics", "harness renderer/canonicaliser (jt)"},
		run: func(c *checkCtx) {
			r := c.mcHolds("GenCatch", "GenCatch_"+c.tier+".cfg", tlcOpts{})
			if r.ncases == 0 {
				infra("GenCatch produced no cases")
			}
			cases, results := c.replay("engine", r.cases, replayOpts{})
			c.judge("engine", cases, results, func(cs, res map[string]J) string {
				if in, _ := res["input"].(string); strings.Contains(in, "throw(") || strings.Contains(in, "foo") || strings.Contains(in, "undef") {
					return in
				}
				return ""
			})
			c.exhaustive = true
		},
	}
	plans["C09"] = &plan{
		level: "model_checking",
		rule: "TLC enumerates every history of N top-level steps over the dynamic predicate p/1 (initially p(1). p(2). p(_). p(2).): plain asserta/assertz/retract/retractall/abolish and " +
			"failure-driven loops that update p/1 while a call to p/1, a retract/1 or a clause/2 on it is open; Engine.tla predicts every call port and the clause/2 listing after every step " +
			"(LUV, DbStep, IdsUnique checked on every transition) and the real interpreter must reproduce them. distinct_nontrivial = distinct histories containing an update inside an open call/retract/clause",
		assume:  []string{"retractall/1 on an undefined procedure is left open (ISO creates the procedure, the property is silent): such histories are not judged"},
		trusted: []string{"TLC", "Engine.tla as the reference semantics", "harness renderer/canonicaliser (jt)"},
		run: func(c *checkCtx) {
			r := c.mcHolds("GenDb", "GenDb_"+c.tier+".cfg", tlcOpts{})
			if r.ncases == 0 {
				infra("GenDb produced no cases")
			}
			cases, results := c.replay("engine", r.cases, replayOpts{})
			c.judge("engine", cases, results, func(cs, res map[string]J) string {
				in, _ := res["input"].(string)
				q := in[strings.Index(in, "?-"):]
				if strings.Contains(q, "(p(V1) , ") || strings.Contains(q, "(retract(p(V1)) , ") || strings.Contains(q, "(clause(p(V1),true) , ") {
					return q
				}
				return ""
			})
			c.exhaustive = true
		},
	}
}
