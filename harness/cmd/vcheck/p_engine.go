package main

import (
	"fmt"
	"os"
	"path/filepath"
	"strconv"
	"strings"
	"time"
)

// Engine family: C01 C03 C04 C09 C11 (specification: Terms.tla, Engine.tla; generators Gen*.tla; trace spec EngineTrace.tla).

func init() {
	plans["C03"] = &plan{
		level: "model_checking",
		rule: "TLC enumerates every control skeleton p/1 (clause bodies over an 11-goal alphabet incl. !, call(!), call((g,!)), \\+, once, if-then-else, " +
			"nested and top-level disjunction) x calling context and runs Engine.tla on it (CutExact, BarrierOK checked in every state); each terminal " +
			"behaviour is replayed on the real interpreter and compared event by event (call ports via the Arrive hook, answers, end). " +
			"distinct_nontrivial = distinct (body1, body2, context) cases whose behaviour executes at least one cut",
		assume:  []string{"the call hook reports every call port (checked by the selftest: dropping it makes the replay disagree)", "generated programs stay inside the vocabulary modelled by Engine.tla"},
		trusted: []string{"TLC", "Engine.tla as the reference semantics", "harness renderer/canonicaliser (jt)"},
		run: func(c *checkCtx) {
			cfgs := []string{"GenCut_" + c.tier + ".cfg", "GenCut_" + c.tier + "2.cfg", "GenCut_" + c.tier + "3.cfg"}
			if c.tier == "thorough" {
				cfgs = append(cfgs, "GenCut_thorough4.cfg")
			}
			for _, cfg := range cfgs {
				r := c.mcHolds("GenCut", cfg, tlcOpts{})
				if r.ncases == 0 {
					infra("GenCut produced no cases")
				}
				cases, results := c.replay("engine", r.cases, replayOpts{})
				c.judge("engine", cases, results, func(cs, res map[string]J) string {
					if in, _ := res["input"].(string); strings.Contains(in[strings.Index(in, "p(V1)"):], "!") {
						return in
					}
					return ""
				})
			}
			// if-then-else, fail and nondeterministic goals as alternatives of every bracketing of a disjunction, in every placement
			dj := c.mcHolds("GenDisj", "GenDisj.cfg", tlcOpts{})
			dc, dr := c.replay("engine", dj.cases, replayOpts{})
			c.judge("engine", dc, dr, func(cs, res map[string]J) string { in, _ := res["input"].(string); return in })
			// a recursion 2 500 levels deep between the call of a committing construct and its cut (for the model: a fact)
			dp := c.mcHolds("GenCut", "GenCut_deep.cfg", tlcOpts{})
			pc, pr := c.replay("engine", dp.cases, replayOpts{opts: map[string]string{"deep": "1"}})
			c.judge("engine", pc, pr, func(cs, res map[string]J) string { in, _ := res["input"].(string); return in + " (deep)" })
			// head shapes x cuts: a clause whose head does not unify (a repeated variable, too) cuts nothing
			ch := c.mcHolds("GenCutHead", "GenCutHead.cfg", tlcOpts{})
			hc, hr := c.replay("engine", ch.cases, replayOpts{})
			c.judge("engine", hc, hr, func(cs, res map[string]J) string { in, _ := res["input"].(string); return in })
			c.engineTV(tvN(c), "cut")
			c.exhaustive = true
		},
	}
	plans["C04"] = &plan{
		level: "model_checking",
		rule: "TLC enumerates every skeleton [g(A),] catch((catch(G1,C1,R1), K), C2, R2) with G1 a conjunction over {generator, probe, throw(b1), throw(b(X)), fail, !, " +
			"X is foo, undefined procedure, \\+ throw, findall(_,throw,_)}, 4 inner catchers, 3 recoveries, 5 continuations running after the inner catch exited, 3 outer catchers; " +
			"Engine.tla predicts the events (UnwindExact, CatchIdsUnique checked in every state) and the real interpreter must reproduce them. " +
			"distinct_nontrivial = distinct queries in which a ball is actually thrown (some event after the throw differs from plain success)",
		assume:  []string{"the call hook reports every call port", "the context argument of error/2 is implementation defined and not compared"},
		trusted: []string{"TLC", "Engine.tla as the reference semantics", "harness renderer/canonicaliser (jt)"},
		run: func(c *checkCtx) {
			for _, cfg := range []string{"GenCatch_" + c.tier + ".cfg", "GenCatch_" + c.tier + "2.cfg", "GenCatch_" + c.tier + "3.cfg"} {
				r := c.mcHolds("GenCatch", cfg, tlcOpts{})
				if r.ncases == 0 {
					infra("GenCatch produced no cases")
				}
				cases, results := c.replay("engine", r.cases, replayOpts{})
				c.judge("engine", cases, results, func(cs, res map[string]J) string {
					if in, _ := res["input"].(string); strings.Contains(in, "throw(") || strings.Contains(in, "foo") || strings.Contains(in, "undef") {
						return in
					}
					return ""
				})
			}
			c.engineTV(tvN(c), "catch,cut")
			c.exhaustive = true
		},
	}
	plans["C09"] = &plan{
		level: "model_checking",
		rule: "TLC enumerates every history of N top-level steps over the dynamic predicate p/1 (initially p(1). p(2). p(_). p(2).): plain asserta/assertz/retract/retractall/abolish and " +
			"failure-driven loops that update p/1 while a call to p/1, a retract/1 or a clause/2 on it is open; Engine.tla predicts every call port and the clause/2 listing after every step " +
			"(LUV, DbStep, IdsUnique checked on every transition) and the real interpreter must reproduce them; the same histories run over q/0, where every fact is a duplicate of every other. distinct_nontrivial = distinct histories containing an update inside an open call/retract/clause",
		assume:  []string{"retractall/1 on an undefined procedure is left open (ISO creates the procedure, the property is silent): such histories are not judged"},
		trusted: []string{"TLC", "Engine.tla as the reference semantics", "harness renderer/canonicaliser (jt)"},
		run: func(c *checkCtx) {
			for _, cfg := range []string{"GenDb_" + c.tier + ".cfg", "GenDb_" + c.tier + "2.cfg", "GenDb_" + c.tier + "_q0.cfg", "GenDb_" + c.tier + "2_q0.cfg"} {
				r := c.mcHolds("GenDb", cfg, tlcOpts{})
				if r.ncases == 0 {
					infra("GenDb produced no cases")
				}
				cases, results := c.replay("engine", r.cases, replayOpts{})
				c.judge("engine", cases, results, func(cs, res map[string]J) string {
					in, _ := res["input"].(string)
					q := in[strings.Index(in, "?-"):]
					if strings.Contains(q, "w(V1)") {
						return q
					}
					return ""
				})
			}
			c.engineTV(tvN(c), "db")
			c.exhaustive = true
		},
	}
	plans["C11"] = &plan{
		level: "model_checking",
		rule: "TLC enumerates every fact table r/3 of NR rows drawn from 6 rows (ground, with variables, variants of each other) x {findall, bagof, setof} x 6 templates x 9 goals " +
			"(with/without ^, conjunction, disjunction, failing goal) x 5 instance arguments, plus nested calls; Engine.tla computes the answers (free variables per ISO 7.1.1.4, " +
			"grouping by variant witness, witness unification, sorted duplicate-free lists for setof; NoLeak checked on every transition) and the real interpreter must give the same answers. " +
			"Group order is compared as a multiset (left open by the property). distinct_nontrivial = distinct (table, call) pairs with at least one solution",
		assume:  []string{"cases whose setof order hinges on the order of two distinct unbound variables are discarded (counted)", "group order is not compared"},
		trusted: []string{"TLC", "Engine.tla as the reference semantics", "harness renderer/canonicaliser (jt)"},
		run: func(c *checkCtx) {
			r := c.mcHolds("GenBag", "GenBag_"+c.tier+".cfg", tlcOpts{})
			if r.ncases == 0 {
				infra("GenBag produced no cases")
			}
			cases, results := c.replay("engine", r.cases, replayOpts{})
			c.judge("engine", cases, results, func(cs, res map[string]J) string {
				if evs, _ := cs["events"].([]J); len(evs) > 1 {
					in, _ := res["input"].(string)
					return in
				}
				return ""
			})
			// witnesses that are lists, the tables loaded as written and with every other list built in pieces by the clause body
			rl := c.mcHolds("GenBag", "GenBag_lists.cfg", tlcOpts{})
			for _, o := range []map[string]string{nil, {"pieces": "1"}} {
				lc, lr := c.replay("engine", rl.cases, replayOpts{opts: o})
				c.judge("engine", lc, lr, func(cs, res map[string]J) string { in, _ := res["input"].(string); return in + fmt.Sprint(o) })
			}
			// longer tables with interleaving witnesses: the solutions of every group in solution order
			ro := c.mcHolds("GenBag", "GenBag_order.cfg", tlcOpts{})
			oc, or := c.replay("engine", ro.cases, replayOpts{})
			c.judge("engine", oc, or, func(cs, res map[string]J) string { in, _ := res["input"].(string); return in })
			// partially bound witnesses whose inner variable is shared with the instances
			rs := c.mcHolds("GenBag", "GenBag_share.cfg", tlcOpts{})
			sc, sr := c.replay("engine", rs.cases, replayOpts{})
			c.judge("engine", sc, sr, func(cs, res map[string]J) string { in, _ := res["input"].(string); return in })
			// a variable that occurs only as the tail of a partial list, in the goal and in the template
			rt := c.mcHolds("GenBag", "GenBag_tail.cfg", tlcOpts{})
			tc, tr := c.replay("engine", rt.cases, replayOpts{})
			c.judge("engine", tc, tr, func(cs, res map[string]J) string { in, _ := res["input"].(string); return in })
			c.engineTV(tvN(c), "bag")
			c.exhaustive = true
		},
	}
	plans["C01"] = &plan{
		level: "model_checking",
		rule: "(U3) seeded random programs (2-5 predicates of arity 0-3, nested compound/list/partial-list arguments, shared and repeated variables, direct and mutual recursion, " +
			"conjunction, nested and top-level disjunction, call/N with partial goals, \\+, findall, if-then-else, once) are run on the real interpreter with the call hook on; every recorded " +
			"event sequence (call ports, answers as binding vectors, end) is validated line by line by TLC against EngineTrace.tla, one TLC state per event. (U2) GenProg: every program over " +
			"a clause pool for p/1, q/1, r/2 x queries is enumerated by TLC and replayed; GenHead: every pair (argument shape in the clause, argument shape in the call) over 24 nested compound / list / " +
			"partial-list shapes with shared and repeated variables, met by the compiled head, built by a compiled body, or bound at run time. distinct_nontrivial = distinct programs whose trace has more than two events",
		assume:  []string{"runs whose reference execution creates a cyclic term (ISO: undefined) or exceeds the step budget are discarded and counted", "first 8 answers, then Close"},
		trusted: []string{"TLC", "Engine.tla as the reference semantics", "harness renderer/canonicaliser (jt)", "Go-side program generator produces inputs only"},
		run: func(c *checkCtx) {
			g := c.mcHolds("GenProg", "GenProg_"+c.tier+".cfg", tlcOpts{})
			if g.ncases == 0 {
				infra("GenProg produced no cases")
			}
			cases, results := c.replay("engine", g.cases, replayOpts{})
			c.judge("engine", cases, results, func(cs, res map[string]J) string {
				if evs, _ := cs["events"].([]J); len(evs) > 2 {
					in, _ := res["input"].(string)
					return in
				}
				return ""
			})
			// every bracketing of a disjunction of three or four alternatives in every placement (GenDisj.tla)
			dj := c.mcHolds("GenDisj", "GenDisj.cfg", tlcOpts{})
			cases, results = c.replay("engine", dj.cases, replayOpts{})
			c.judge("engine", cases, results, func(cs, res map[string]J) string { in, _ := res["input"].(string); return in })
			// the data side: every (clause argument shape, call argument shape) pair under four fixed control structures
			h := c.mcHolds("GenHead", "GenHead.cfg", tlcOpts{})
			cases, results = c.replay("engine", h.cases, replayOpts{})
			c.judge("engine", cases, results, func(cs, res map[string]J) string { in, _ := res["input"].(string); return in })
			// once more with the lists of one-letter atoms of the PROGRAM written as double-quoted strings
			cases, results = c.replay("engine", h.cases, replayOpts{opts: map[string]string{"strings": "1"}})
			c.judge("engine", cases, results, func(cs, res map[string]J) string { in, _ := res["input"].(string); return in + " (strings)" })
			// clause selection: every sequence of first arguments of a four-clause predicate, called with each kind of argument in turn
			gi := c.mcHolds("GenIndex", "GenIndex.cfg", tlcOpts{})
			cases, results = c.replay("engine", gi.cases, replayOpts{})
			c.judge("engine", cases, results, func(cs, res map[string]J) string { in, _ := res["input"].(string); return in })
			// the binding environment as a persistent map: random histories of binds that branch from old versions (EnvPersist.tla,
			// TLC simulation), every version compared with the model after every step
			walks := "num=1500"
			if c.tier == "thorough" {
				walks = "num=40000"
			}
			ev := c.mcHolds("EnvPersist", "EnvPersist.cfg", tlcOpts{simulate: walks, depth: 46, workers: 1})
			cases, results = c.replay("env", ev.cases, replayOpts{chunk: 64})
			c.judge("env", cases, results, func(cs, res map[string]J) string { in, _ := res["input"].(string); return in })
			n := 1200
			if c.tier == "thorough" {
				n = 20000
			}
			c.engineTV(n, "")
		},
	}
}

func init() {
	// development aid: trace validation only, features from VCHECK_FEAT, size from VCHECK_N
	plans["TVX"] = &plan{level: "model_checking", rule: "dev", run: func(c *checkCtx) {
		n, _ := strconv.Atoi(os.Getenv("VCHECK_N"))
		c.engineTV(n, os.Getenv("VCHECK_FEAT"))
	}}
}

func tvN(c *checkCtx) int {
	if c.tier == "thorough" {
		return 8000
	}
	return 400
}

func engineInitLine(cs map[string]J) map[string]J {
	return map[string]J{"db": cs["db"], "query": cs["query"], "qv": cs["qv"], "nv": cs["nv"]}
}

// engineTV: U3 for the engine family with the given generator features.
func (c *checkCtx) engineTV(n int, feat string) {
	gen := filepath.Join(c.work, "tv-"+feat+".ndjson")
	c.vhRun("gen", "engine", "--seed", strconv.FormatInt(c.seed, 10), "--n", strconv.Itoa(n), "--out", gen, "--opt", "feat="+feat)
	traces := c.recordTraces("engine", gen, replayOpts{timeout: 8 * time.Second}, engineInitLine)
	c.validateTraces("engine", "EngineTrace", "EngineTrace.cfg", traces, traceOpts{})
	if c.id == "C01" {
		c.bindingSelfTest("EngineTrace", "EngineTrace.cfg", traces, 6)
	}
}

func init() {
	plans["C17"] = &plan{
		level: "model_checking",
		rule: "TLC enumerates every grammar of the stratified space (s//1, a//1, b//0, two rules each; bodies with terminal lists, a string literal, non-terminals with an argument, sequence, ; and |, {}//1, \\+//1, !//0 " +
			"as a conjunct of the rule body also in left-nested conjunctions, call//1, if-then-else, push-back) x every input list of length <= NI x {phrase/3 with unbound remainder, phrase/2, generation mode}; the " +
			"translation of DTR 13211-3 (Dcg.tla) executed by Engine.tla predicts the sequence of (argument, remainder) answers; LanguagePreserved cross-checks it against plain derivation (Parse) on the model; each case " +
			"is replayed through consult of --> rules and through expand_term/2 + assertz/1. distinct_nontrivial = distinct (grammar, input, mode) cases with at least one answer",
		assume:  []string{"cut inside a nested disjunction or if-then-else of a grammar body is local in this implementation (the placements C03 excludes) and is not generated"},
		trusted: []string{"TLC", "Dcg.tla as transcription of DTR 13211-3", "Engine.tla"},
		run: func(c *checkCtx) {
			r := c.mcHolds("GenDcg", "GenDcg_"+c.tier+".cfg", tlcOpts{})
			// the terminals x, y as ASCII letters, and as a two-byte and a three-byte character (with every terminal list of the
			// expand_term path written as a string)
			for _, o := range []map[string]string{nil, {"alphabet": "unicode"}} {
				cases, results := c.replay("dcg", r.cases, replayOpts{opts: o})
				c.judge("dcg", cases, results, func(cs, res map[string]J) string {
					if evs, _ := cs["events"].([]J); len(evs) > 1 {
						in, _ := res["input"].(string)
						return in + fmt.Sprint(o)
					}
					return ""
				})
			}
			c.exhaustive = true
		},
	}
}

func init() {
	plans["C10"] = &plan{
		level: "model_checking",
		rule: "(structure, code->spec) every clause of bootstrap.pl and seeded random clauses (heads and body goals with atoms, numbers, strings, nested compounds, proper and partial lists, repeated and singleton variables, variable " +
			"goals, cut, top-level disjunctions, if-then-else), each added through consult and through assertz/asserta with variables already bound in the calling environment and arguments built at run time by append/3 and " +
			"atom_chars/2, are dumped through the accessor hook (stored term, number of variables, bytecode) and TLC checks every record with Decompile.tla: the bytecode denotes the stored term (Denotes) and allocates exactly " +
			"its variables (NVarsOK). (behaviour, spec->code) GenClause: every clause of a pool x loading path (consult / assertz with a variable bound before and another bound after the assert) -> clause/2 listing, retract/1 of " +
			"an instance, and probe calls predicted by Engine.tla and replayed. distinct_nontrivial = distinct clause records / cases",
		assume:  []string{"the accessor hook exports the compiled clauses faithfully (it converts opcodes to names and nothing else)"},
		trusted: []string{"TLC", "Decompile.tla", "Engine.tla", "engine.VerifProcedures"},
		run: func(c *checkCtx) {
			for _, cfg := range []string{"GenClause_" + c.tier + ".cfg"} {
				r := c.mcHolds("GenClause", cfg, tlcOpts{})
				cases, results := c.replay("engine", r.cases, replayOpts{})
				c.judge("engine", cases, results, func(cs, res map[string]J) string { in, _ := res["input"].(string); return in })
			}
			// the clause in a text whose initialization goal binds variables named like the clause's and then observes the clause
			ri := c.mcHolds("GenClause", "GenClause_init.cfg", tlcOpts{})
			ci, resi := c.replay("engine", ri.cases, replayOpts{opts: map[string]string{"directive": "1"}})
			c.judge("engine", ci, resi, func(cs, res map[string]J) string { in, _ := res["input"].(string); return in + " (init)" })
			// instruction level: the head phase of the real VM on the activations of GenHead's programs and of seeded random programs,
			// validated by TLC against ZipVM.tla (conformance) and against unification with the decompiled head (meaning)
			hz := c.mcHolds("GenHead", "GenHead.cfg", tlcOpts{})
			// a random program may build a cyclic term (no occurs check: undefined in ISO) and make the interpreter overflow its stack or
			// run away: nothing that the instruction-level records speak about (such programs are judged by the engine traces of C01)
			c.crashDiscard = func(status, detail string) bool { return true }
			zt := c.recordTraces("zipvm", hz.cases, replayOpts{}, func(cs map[string]J) map[string]J { return map[string]J{} })
			genz := filepath.Join(c.work, "zipvm-gen.ndjson")
			nz := 300
			if c.tier == "thorough" {
				nz = 5000
			}
			c.vhRun("gen", "engine", "--seed", strconv.FormatInt(c.seed, 10), "--n", strconv.Itoa(nz), "--out", genz, "--opt", "feat=")
			zt = append(zt, c.recordTraces("zipvm", genz, replayOpts{timeout: 8 * time.Second}, func(cs map[string]J) map[string]J { return map[string]J{} })...)
			c.crashDiscard = nil
			c.validateTraces("zipvm", "ZipVMTrace", "ZipVMTrace.cfg", zt, traceOpts{})
			// (records are independent and a failing activation stays a valid run when a constant is renamed: the corruption that
			// must be rejected is a flipped outcome, alternately a shortened instruction path)
			flip := 0
			c.bindingSelfTestWith("ZipVMTrace", "ZipVMTrace.cfg", zt, 4, func(line string) (string, bool) {
				flip++
				switch {
				case flip%2 == 1 && strings.Contains(line, `"ok":false`):
					return strings.Replace(line, `"ok":false`, `"ok":true`, 1), true
				case flip%2 == 1 && strings.Contains(line, `"ok":true`):
					return strings.Replace(line, `"ok":true`, `"ok":false`, 1), true
				case strings.Contains(line, `"path":["`):
					i := strings.Index(line, `"path":["`) + len(`"path":[`)
					j := i + strings.Index(line[i:], `"`+",") // end of the first instruction name
					if j > i && strings.Index(line[i:], "]") > j-i {
						return line[:i] + line[j+2:], true // the first instruction dropped from the path
					}
				}
				return "", false
			})
			// every argument kind of a stored clause against every way the call can write its argument (GenHead.tla), the lists of
			// one-letter atoms of the clauses written as lists and as double-quoted strings
			h := c.mcHolds("GenHead", "GenHead.cfg", tlcOpts{})
			for _, o := range []map[string]string{nil, {"strings": "1"}} {
				cases, results := c.replay("engine", h.cases, replayOpts{opts: o})
				c.judge("engine", cases, results, func(cs, res map[string]J) string {
					in, _ := res["input"].(string)
					return in + fmt.Sprint(o)
				})
			}
			n := 150
			if c.tier == "thorough" {
				n = 3000
			}
			gen := filepath.Join(c.work, "compiled.ndjson")
			c.vhRun("gen", "compiled", "--seed", strconv.FormatInt(c.seed, 10), "--n", strconv.Itoa(n), "--out", gen)
			traces := c.recordTraces("compiled", gen, replayOpts{}, func(cs map[string]J) map[string]J { return map[string]J{} })
			// one trace per clause record so that a rejection names the clause
			var single []*rtrace
			for _, t := range traces {
				for _, l := range t.lines[1:] {
					single = append(single, &rtrace{cs: t.cs, input: t.input + "\n record: " + oneLine(string(l), 700), lines: [][]byte{t.lines[0], l}})
				}
			}
			c.validateTraces("compiled", "DecompileTrace", "DecompileTrace.cfg", single, traceOpts{})
		},
	}
}
