package main

// Engine family: C01 C03 C04 C09 C11 (specification: Terms.tla, Engine.tla; generators Gen*.tla; trace spec EngineTrace.tla).

func init() {
	plans["C03"] = &plan{
		level: "model_checking",
		rule: "TLC enumerates every control skeleton p/1 (clause bodies over an 11-goal alphabet incl. !, call(!), call((g,!)), \\+, once, if-then-else, " +
			"nested and top-level disjunction) x calling context and runs Engine.tla on it (CutExact, BarrierOK checked in every state); each terminal " +
			"behaviour is replayed on the real interpreter and compared event by event (call ports via the Arrive hook, answers, end). " +
			"distinct_nontrivial = distinct (body1, body2, context) cases whose behaviour executes at least one cut",
		assume:  []string{"the call hook reports every call port (checked by the selftest: dropping it makes the replay disagree)", "generated programs stay inside the vocabulary modelled by Engine.tla"},
		trusted: []string{"TLC", "Engine.tla as the reference semantics", "harness renderer/canonicaliser (jt)"},
		run: func(c *checkCtx) {
			cfg := "GenCut_quick.cfg"
			if c.tier == "thorough" {
				cfg = "GenCut_thorough.cfg"
			}
			r := c.mcHolds("GenCut", cfg, tlcOpts{})
			if r.ncases == 0 {
				infra("GenCut produced no cases")
			}
			cases, results := c.replay("engine", r.cases, replayOpts{})
			c.judge("engine", cases, results, func(cs, res map[string]J) string { return caseKeyIfContains(cs, `"!"`) })
			c.exhaustive = true
		},
	}
}
