// Package jt converts between the JSON term encoding used by the TLA+ specifications
// (["a",name] ["i",n] ["n",text] ["v",k] ["c",functor,[args]]) and engine terms / Prolog text.
package jt

import (
	"math"
	"fmt"
	"strconv"
	"strings"

	"github.com/ichiban/prolog/engine"
)

// J is a decoded JSON value.
type J = interface{}

// Canon turns engine terms into J terms, numbering unbound variables by first occurrence.
type Canon struct {
	Env   *engine.Env
	ids   map[engine.Variable]int
	depth int
	// Cyclic is set when a term deeper than MaxDepth was met (taken as a cyclic term).
	Cyclic bool
	// TooBig is set when more than MaxNodes nodes were visited (terms sharing subterms can be exponentially large).
	TooBig bool
	nodes  int
}

// MaxNodes bounds the size of what one canonicaliser converts.
const MaxNodes = 20000

// MaxDepth bounds the depth of terms the canonicaliser follows.
const MaxDepth = 2000

func NewCanon(env *engine.Env) *Canon { return &Canon{Env: env, ids: map[engine.Variable]int{}} }

// NVars is the number of distinct variables seen so far.
func (c *Canon) NVars() int { return len(c.ids) }

func (c *Canon) Term(t engine.Term) J {
	c.depth++
	defer func() { c.depth-- }()
	if c.depth > MaxDepth {
		c.Cyclic = true
		return []J{"a", "$deep"}
	}
	c.nodes++
	if c.nodes > MaxNodes {
		c.TooBig = true
		return []J{"a", "$big"}
	}
	switch t := c.Env.Resolve(t).(type) {
	case engine.Variable:
		n, ok := c.ids[t]
		if !ok {
			n = len(c.ids) + 1
			c.ids[t] = n
		}
		return []J{"v", float64(n)}
	case engine.Atom:
		return []J{"a", t.String()}
	case engine.Integer:
		if k, ok := narrow[int64(t)]; ok {
			return []J{"i", float64(k)}
		}
		if t > 1<<30 || t < -(1<<30) {
			return []J{"n", strconv.FormatInt(int64(t), 10)}
		}
		return []J{"i", float64(t)}
	case engine.Float:
		if k := float64(t) * 2; k == float64(int64(k)) && k > -1e6 && k < 1e6 {
			return []J{"f", k}
		}
		return []J{"n", strconv.FormatFloat(float64(t), 'g', -1, 64) + "f"}
	case engine.Compound:
		f := t.Functor().String()
		n := t.Arity()
		if f == "error" && n == 2 {
			// the second argument of error/2 is implementation defined
			return []J{"c", f, []J{c.Term(t.Arg(0)), []J{"a", "$ctx"}}}
		}
		// iterate along the right spine of lists to keep the Go stack flat
		if f == "." && n == 2 {
			var heads []J
			var cur engine.Term = t
			for len(heads) < 100000 {
				cc, ok := c.Env.Resolve(cur).(engine.Compound)
				if !ok || cc.Functor().String() != "." || cc.Arity() != 2 {
					break
				}
				heads = append(heads, c.Term(cc.Arg(0)))
				cur = cc.Arg(1)
			}
			if len(heads) >= 100000 {
				c.Cyclic = true
				return []J{"a", "$deep"}
			}
			tail := c.Term(cur)
			for i := len(heads) - 1; i >= 0; i-- {
				tail = []J{"c", ".", []J{heads[i], tail}}
			}
			return tail
		}
		args := make([]J, n)
		for i := range args {
			args[i] = c.Term(t.Arg(i))
		}
		return []J{"c", f, args}
	default:
		return []J{"a", fmt.Sprintf("$%T", t)}
	}
}

func Kind(t J) string { return t.([]J)[0].(string) }

func Int(x J) int { return int(x.(float64)) }

// Render writes a J term as Prolog text in canonical (functional) notation except for
// control constructs, lists and a few operators that are written infix inside parentheses.
// Variables are named V<k>; the "_G" prefix can be changed with the namer.
func Render(t J) string { return RenderWith(t, func(k int) string { return "V" + strconv.Itoa(k) }) }

// StringLists makes Render write a proper list of one-letter atoms as a double-quoted string literal (the same term under
// double_quotes = chars, but a different notation and, in this implementation, a different representation).
var StringLists bool

// CellLists makes Render write every list cell in functional notation, '.'(H,T): the same term, in this implementation another
// representation than the bracket notation (a chain of compounds instead of a slice).
var CellLists bool

func charString(t J) (string, bool) {
	var sb strings.Builder
	for {
		a := t.([]J)
		if a[0].(string) == "a" && a[1].(string) == "[]" {
			return sb.String(), sb.Len() > 0
		}
		if a[0].(string) != "c" || a[1].(string) != "." || len(a[2].([]J)) != 2 {
			return "", false
		}
		h := a[2].([]J)[0].([]J)
		if h[0].(string) != "a" || len(h[1].(string)) != 1 || h[1].(string)[0] < 'a' || h[1].(string)[0] > 'z' {
			return "", false
		}
		sb.WriteString(h[1].(string))
		t = a[2].([]J)[1]
	}
}

// Wide: TLC's integers have 32 bits. Six model integers stand for integers near the 64-bit limits; the map preserves the order
// (every other model integer lies between -7000 and 7000), which is all that the models using them speak about.
var Wide = map[int]int64{-7003: math.MinInt64, -7002: -5000000000000000000, -7001: -(1 << 62), 7001: 1 << 62, 7002: 5000000000000000000, 7003: math.MaxInt64}
var narrow = func() map[int64]int {
	m := map[int64]int{}
	for k, w := range Wide {
		m[w] = k
	}
	return m
}()

func RenderWith(t J, vname func(int) string) string {
	a := t.([]J)
	switch a[0].(string) {
	case "a":
		return Atom(a[1].(string))
	case "i":
		n := Int(a[1])
		if w, ok := Wide[n]; ok {
			if w < 0 {
				return "(" + strconv.FormatInt(w, 10) + ")"
			}
			return strconv.FormatInt(w, 10)
		}
		if n < 0 {
			return "(" + strconv.Itoa(n) + ")"
		}
		return strconv.Itoa(n)
	case "f":
		s := strconv.FormatFloat(a[1].(float64)/2, 'f', 1, 64)
		if strings.HasPrefix(s, "-") {
			return "(" + s + ")"
		}
		return s
	case "n":
		s := strings.TrimSuffix(a[1].(string), "f")
		if strings.HasPrefix(s, "-") {
			return "(" + s + ")"
		}
		return s
	case "v":
		return vname(Int(a[1]))
	case "s": // string literal (double quoted)
		return strconv.Quote(a[1].(string))
	case "c":
		args := a[2].([]J)
		f := a[1].(string)
		if f == "." && len(args) == 2 {
			if CellLists {
				return "'.'(" + RenderWith(args[0], vname) + "," + RenderWith(args[1], vname) + ")"
			}
			if StringLists {
				if str, ok := charString(t); ok {
					return strconv.Quote(str)
				}
			}
			var sb strings.Builder
			sb.WriteString("[")
			sb.WriteString(RenderWith(args[0], vname))
			cur := args[1]
			for {
				ca := cur.([]J)
				if ca[0].(string) == "c" && ca[1].(string) == "." && len(ca[2].([]J)) == 2 {
					sb.WriteString(",")
					sb.WriteString(RenderWith(ca[2].([]J)[0], vname))
					cur = ca[2].([]J)[1]
					continue
				}
				if ca[0].(string) == "a" && ca[1].(string) == "[]" {
					break
				}
				sb.WriteString("|")
				sb.WriteString(RenderWith(cur, vname))
				break
			}
			sb.WriteString("]")
			return sb.String()
		}
		parts := make([]string, len(args))
		for i, x := range args {
			parts[i] = RenderWith(x, vname)
		}
		switch {
		case len(args) == 2 && infix[f]:
			return "(" + parts[0] + " " + f + " " + parts[1] + ")"
		case len(args) == 1 && f == "\\+":
			return "\\+ (" + parts[0] + ")"
		case len(args) == 1 && f == "{}":
			return "{" + parts[0] + "}"
		}
		return Atom(f) + "(" + strings.Join(parts, ",") + ")"
	}
	panic(fmt.Sprintf("bad term %v", t))
}

var infix = map[string]bool{",": true, ";": true, "->": true, "=": true, ":-": true, "-->": true, "|": true, "^": true}

// Atom renders an atom name, quoting when needed.
func Atom(n string) string {
	switch n {
	case "[]", "!", ";", "{}":
		return n
	case ",":
		return "','"
	case "|":
		return "'|'"
	}
	if n == "" {
		return "''"
	}
	plain := true
	for i, r := range n {
		if !(r >= 'a' && r <= 'z' || (i > 0 && (r >= '0' && r <= '9' || r == '_' || r >= 'A' && r <= 'Z'))) {
			plain = false
			break
		}
	}
	if plain {
		return n
	}
	graphic := true
	for _, r := range n {
		if !strings.ContainsRune("#$&*+-./:<=>?@^~\\", r) {
			graphic = false
			break
		}
	}
	if graphic {
		return n
	}
	var sb strings.Builder
	sb.WriteByte('\'')
	for _, r := range n {
		switch r {
		case '\'':
			sb.WriteString("\\'")
		case '\\':
			sb.WriteString("\\\\")
		case '\n':
			sb.WriteString("\\n")
		case '\t':
			sb.WriteString("\\t")
		default:
			sb.WriteRune(r)
		}
	}
	sb.WriteByte('\'')
	return sb.String()
}

// Build helpers for Go-side generators.
func A(n string) J         { return []J{"a", n} }
func I(n int) J            { return []J{"i", float64(n)} }
func V(k int) J            { return []J{"v", float64(k)} }
func C(f string, a ...J) J { return []J{"c", f, a} }
func List(xs []J, tail J) J {
	t := tail
	if t == nil {
		t = A("[]")
	}
	for i := len(xs) - 1; i >= 0; i-- {
		t = C(".", xs[i], t)
	}
	return t
}

// MaxVar returns the largest variable index in t.
func MaxVar(t J) int {
	a := t.([]J)
	switch a[0].(string) {
	case "v":
		return Int(a[1])
	case "c":
		m := 0
		for _, x := range a[2].([]J) {
			if k := MaxVar(x); k > m {
				m = k
			}
		}
		return m
	}
	return 0
}
