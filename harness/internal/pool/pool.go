// Package pool runs cases in isolated worker sub-processes ("vh worker <family>"), one case per line on
// stdin, one result per line on stdout. A worker that dies or does not answer in time is replaced and the
// case is reported as "crash" or "hang"; nothing else is inferred from it.
package pool

import (
	"bufio"
	"bytes"
	"encoding/json"
	"fmt"
	"io"
	"os"
	"os/exec"
	"strings"
	"sync"
	"time"
)

type Options struct {
	Exe     string   // path of the vh binary
	Args    []string // e.g. ["worker", "engine"]
	Workers int
	Timeout time.Duration // per case
	Chunk   int           // consecutive cases handed to one worker at a time (default 1)
	Env     []string
}

type worker struct {
	cmd    *exec.Cmd
	in     io.WriteCloser
	out    *bufio.Reader
	stderr *tailBuf
	lines  chan []byte
}

type tailBuf struct {
	mu   sync.Mutex
	buf  []byte
	mark string
}

func (t *tailBuf) Write(p []byte) (int, error) {
	t.mu.Lock()
	defer t.mu.Unlock()
	// handlers announce what they are about to run on lines starting with "TEXT " or "CALL ": keep the last one
	for _, line := range bytes.Split(p, []byte("\n")) {
		if bytes.HasPrefix(line, []byte("TEXT ")) || bytes.HasPrefix(line, []byte("CALL ")) {
			t.mark = string(line)
		}
	}
	t.buf = append(t.buf, p...)
	if len(t.buf) > 4000 {
		// keep head and tail: the head names a fatal error, the tail its goroutine
		t.buf = append(t.buf[:2000:2000], t.buf[len(t.buf)-1500:]...)
	}
	return len(p), nil
}

func (t *tailBuf) String() string {
	t.mu.Lock()
	defer t.mu.Unlock()
	s := string(t.buf)
	if t.mark != "" {
		// only the fatal message itself is of interest besides the mark
		if i := strings.Index(s, "fatal error"); i >= 0 {
			s = s[i:]
		} else if i := strings.Index(s, "panic:"); i >= 0 {
			s = s[i:]
		}
		if len(s) > 400 {
			s = s[:400]
		}
		return "last announced: " + t.mark + " | " + s
	}
	return s
}

func start(o Options) (*worker, error) {
	cmd := exec.Command(o.Exe, o.Args...)
	cmd.Env = append(os.Environ(), o.Env...)
	in, err := cmd.StdinPipe()
	if err != nil {
		return nil, err
	}
	out, err := cmd.StdoutPipe()
	if err != nil {
		return nil, err
	}
	tb := &tailBuf{}
	cmd.Stderr = tb
	if err := cmd.Start(); err != nil {
		return nil, err
	}
	w := &worker{cmd: cmd, in: in, out: bufio.NewReaderSize(out, 1<<20), stderr: tb, lines: make(chan []byte, 1)}
	go func() {
		for {
			line, err := w.out.ReadBytes('\n')
			if err != nil {
				close(w.lines)
				return
			}
			w.lines <- line
		}
	}()
	return w, nil
}

func (w *worker) kill() {
	_ = w.in.Close()
	_ = w.cmd.Process.Kill()
	_, _ = w.cmd.Process.Wait()
}

// Run feeds every case to a worker and returns one result line per case, in case order.
func Run(o Options, cases [][]byte) ([][]byte, error) {
	if o.Workers < 1 {
		o.Workers = 1
	}
	if o.Timeout == 0 {
		o.Timeout = 5 * time.Second
	}
	results := make([][]byte, len(cases))
	// consecutive cases go to the same worker in chunks, so that handlers can exploit locality (shared setup)
	chunk := o.Chunk
	if chunk < 1 {
		chunk = 1
	}
	chunks := make(chan [2]int, len(cases)/chunk+1)
	for i := 0; i < len(cases); i += chunk {
		j := i + chunk
		if j > len(cases) {
			j = len(cases)
		}
		chunks <- [2]int{i, j}
	}
	close(chunks)
	var wg sync.WaitGroup
	errs := make(chan error, o.Workers)
	for k := 0; k < o.Workers; k++ {
		wg.Add(1)
		go func() {
			defer wg.Done()
			var w *worker
			defer func() {
				if w != nil {
					w.kill()
				}
			}()
			for ch := range chunks {
				for i := ch[0]; i < ch[1]; i++ {
					if w == nil {
						var err error
						if w, err = start(o); err != nil {
							errs <- err
							return
						}
					}
					line := append(bytes.TrimRight(cases[i], "\n"), '\n')
					if _, err := w.in.Write(line); err != nil {
						results[i] = failure("crash", w)
						w.kill()
						w = nil
						continue
					}
					select {
					case res, ok := <-w.lines:
						if !ok {
							time.Sleep(50 * time.Millisecond) // let stderr drain
							results[i] = failure("crash", w)
							w.kill()
							w = nil
							continue
						}
						results[i] = bytes.TrimRight(res, "\n")
						if bytes.Contains(res, []byte(`"fatal":true`)) {
							// the handler says the worker is no longer usable (a goroutine of the code under test is stuck)
							w.kill()
							w = nil
						}
					case <-time.After(o.Timeout):
						results[i] = failure("hang", w)
						w.kill()
						w = nil
					}
				}
			}
		}()
	}
	wg.Wait()
	select {
	case err := <-errs:
		return nil, err
	default:
	}
	return results, nil
}

func failure(kind string, w *worker) []byte {
	b, _ := json.Marshal(map[string]interface{}{"status": kind, "detail": w.stderr.String()})
	return b
}

// Serve is the worker side: it calls handle for every input line.
func Serve(handle func(line []byte) []byte) {
	in := bufio.NewReaderSize(os.Stdin, 1<<20)
	out := bufio.NewWriterSize(os.Stdout, 1<<20)
	for {
		line, err := in.ReadBytes('\n')
		if len(line) > 0 {
			res := handle(bytes.TrimRight(line, "\n"))
			res = bytes.ReplaceAll(res, []byte("\n"), []byte(" "))
			out.Write(res)
			out.WriteByte('\n')
			out.Flush()
		}
		if err != nil {
			return
		}
	}
}

// ReadLines reads a file of ndjson lines.
func ReadLines(path string) ([][]byte, error) {
	f, err := os.Open(path)
	if err != nil {
		return nil, err
	}
	defer f.Close()
	r := bufio.NewReaderSize(f, 1<<20)
	var out [][]byte
	for {
		line, err := r.ReadBytes('\n')
		line = bytes.TrimRight(line, "\n")
		if len(line) > 0 {
			out = append(out, line)
		}
		if err != nil {
			if err == io.EOF {
				return out, nil
			}
			return nil, fmt.Errorf("read %s: %w", path, err)
		}
	}
}
