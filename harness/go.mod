module verifharness

go 1.19

require github.com/ichiban/prolog v0.0.0

replace github.com/ichiban/prolog => /repo
