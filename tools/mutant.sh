#!/bin/bash
# tools/mutant.sh <outdir under /tmp/mut/out> <property id> [more property ids...]
# 1. verifies the seeded change in a scratch worktree (applies, builds, the existing suite still passes, the demonstration
#    fails with it and passes without it); 2. runs the named checks against that worktree (expects exit 1);
# 3. files it under /verif/seeded/<name>/.
set -u
export GOFLAGS=-mod=mod GOPROXY=off GOSUMDB=off GOTOOLCHAIN=local
name=$1; shift
src=/tmp/mut/out/$name
[ -f $src/patch.diff ] || { echo "no patch in $src"; exit 2; }
wt=/tmp/mutv-$name
git -C /repo worktree remove --force $wt 2>/dev/null
git -C /repo worktree add -q --detach $wt HEAD || exit 2
cleanup() { git -C /repo worktree remove --force $wt 2>/dev/null; }
trap cleanup EXIT
cd $wt
git apply $src/patch.diff || { echo "PATCH DOES NOT APPLY"; exit 2; }
go build ./... || { echo "DOES NOT BUILD"; exit 2; }
go test -json -vet=off -count=1 -timeout 25m ./... > /tmp/mutv-$name.json 2>/dev/null
/usr/bin/python3 - $name <<'PY'
import json,ast,sys
b=json.load(open('/root/.vp/BASELINE.json'))
sp=b['stable_pass']
if isinstance(sp,str): sp=ast.literal_eval(sp)
want=set(sp); got=set(); failed=set()
for l in open('/tmp/mutv-%s.json'%sys.argv[1]):
    try: e=json.loads(l)
    except Exception: continue
    if e.get('Test'):
        if e.get('Action')=='pass': got.add(e['Package']+'::'+e['Test'])
        if e.get('Action')=='fail': failed.add(e['Package']+'::'+e['Test'])
import re
# sub-tests of TestEnv_Lookup are named after run-time variable numbers (_2199): a change that creates more or fewer variables
# renames them without failing anything
missing=sorted(t for t in want-got if not re.search(r'TestEnv_Lookup/_\d+$', t))
failed=sorted(t for t in failed if 'TestOpen' not in t)
print('suite with the change: missing=%d failed=%d'%(len(missing),len(failed)), missing[:5], failed[:5])
sys.exit(1 if missing or failed else 0)
PY
suite=$?
demo=$(ls $src/*_test.go | head -1)
cp $demo $wt/zz_demo_test.go
pkgdir=.
grep -q '^package engine' $demo && { mv $wt/zz_demo_test.go $wt/engine/zz_demo_test.go; pkgdir=./engine; }
tname=$(grep -o 'func Test[A-Za-z0-9_]*' $demo | head -1 | sed 's/func //')
timeout 120 go test -vet=off -count=1 -run "^$tname\$" $pkgdir > /tmp/mutv-$name.with 2>&1; with=$?
git apply -R $src/patch.diff
timeout 120 go test -vet=off -count=1 -run "^$tname\$" $pkgdir > /tmp/mutv-$name.without 2>&1; without=$?
echo "suite_ok=$((suite==0)) demo_with_change_exit=$with demo_without_change_exit=$without"
rm -f /tmp/mutv-$name.json
if [ $suite -ne 0 ] || [ $with -eq 0 ] || [ $without -ne 0 ]; then echo "MUTANT NOT CONFIRMED"; tail -5 /tmp/mutv-$name.with; exit 3; fi
cd /verif
results=""
# the checks run against the scratch worktree with the change applied (VCHECK_REPO, development only), so /repo stays untouched
git -C $wt apply $src/patch.diff || exit 2
for id in "$@"; do
  VCHECK_REPO=$wt ./check $id --tier ${TIER:-quick} > /tmp/mutv-$name.$id.log 2>&1; rc=$?
  echo "check $id exit=$rc : $(grep -c '^VIOLATION' /tmp/mutv-$name.$id.log) violation lines; $(tail -1 /tmp/mutv-$name.$id.log | cut -c1-200)"
  results="$results $id=$rc"
done
mkdir -p /verif/seeded/$name
cp $src/patch.diff /verif/seeded/$name/patch.diff
cp $demo /verif/seeded/$name/
[ -f $src/notes.txt ] && cp $src/notes.txt /verif/seeded/$name/notes.txt
echo "RESULTS$results"
