#!/bin/sh
# dev helper: validate MANIFEST.json and every evidence file against the schemas
python3-vt - <<'PY'
import json,jsonschema,glob
jsonschema.validate(json.load(open('/verif/MANIFEST.json')),json.load(open('/root/.vp/MANIFEST.schema.json')))
s=json.load(open('/root/.vp/EVIDENCE.schema.json'))
for f in sorted(glob.glob('/verif/evidence/*.json')):
    jsonschema.validate(json.load(open(f)),s)
print('manifest and',len(glob.glob('/verif/evidence/*.json')),'evidence files valid')
PY
