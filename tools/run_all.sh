#!/bin/bash
# tools/run_all.sh <tier> [ids...]: runs the checks one after the other and prints one summary line per check.
tier=$1; shift
ids="$@"
[ -z "$ids" ] && ids="C01 C02 C03 C04 C05 C06 C07 C08 C09 C10 C11 C12 C13 C14 C15 C16 C17 C18 C19 C20"
for id in $ids; do
  t0=$(date +%s)
  /verif/check $id --tier $tier > /tmp/runall_$id.log 2>&1; rc=$?
  t1=$(date +%s)
  echo "$id tier=$tier exit=$rc wall=$((t1-t0))s :: $(grep -c '^VIOLATION' /tmp/runall_$id.log) violations :: $(tail -1 /tmp/runall_$id.log | cut -c1-220)"
done
