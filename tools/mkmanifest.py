#!/usr/bin/env python3
# Development helper: regenerates /verif/MANIFEST.json from the table below (the committed MANIFEST.json is what counts).
import json, subprocess
claimed = json.load(open('/verif/tools/claims.json'))
props = [json.loads(l) for l in open('/verif/properties.jsonl')]
hook_commits = subprocess.run(['git','-C','/repo','log','--format=%h %s'],capture_output=True,text=True).stdout.splitlines()
hook_commits = [l.split()[0] for l in hook_commits if l.split(' ',1)[1].startswith('verif:')]
checks=[]; na=[]
for p in props:
    i=p['id']
    if i in claimed:
        c=claimed[i]
        checks.append({
            "property_id": i,
            "quick_cmd": f"./check {i} --tier quick",
            "thorough_cmd": f"./check {i} --tier thorough",
            "evidence_file": f"/verif/evidence/{i}.json",
            "replay_cmd_template": f"./check {i} --replay {{path}}",
            "engine": c.get("engine","tlc+vh"),
            "level_claimed": {"category": c["level"], "text": c["text"], "design_ref": c.get("design_ref", f"DESIGN.md §6 {i}")},
            "level_note": c["note"],
            "technique": c["technique"],
        })
    else:
        na.append({"property_id": i, "reason": "no check registered yet: the TLA+ module and replayer for this property are not built at this commit (see DESIGN.md §6 for the plan)"})
m={
 "version":1,
 "setup_cmd":"cd /verif/harness && cp /repo/go.sum go.sum && GOFLAGS=-mod=mod GOPROXY=off GOSUMDB=off GOTOOLCHAIN=local go build -o /verif/bin/vcheck ./cmd/vcheck",
 "hooks":{"guard":"verif","enable":"go build -tags verif (the check driver builds /verif/harness/cmd/vh against /repo with -tags verif on every run)",
          "baseline_off_cmd":"cd /repo && GOFLAGS=-mod=mod GOPROXY=off go test -json -vet=off -count=1 -timeout 25m ./...",
          "source_commits":hook_commits,"add_only":True},
 "engines":[{"name":"tlc+vh","path":"/verif/spec + /verif/harness","serves_properties":sorted(claimed.keys()),
             "kind_free_text":"explicit TLA+ specification checked with TLC (exhaustive small-scope model checking, behaviour generation, trace validation) bound to the Go implementation by a replay/record harness built against /repo with -tags verif"}],
 "checks":checks,
 "notes":"Every check: ./check <id> --tier quick|thorough. Exit 0 held / 1 VIOLATION / 2 infrastructure error (never a verdict). Known findings: /verif/known_findings.txt.",
 "not_applicable":na,
}
json.dump(m,open('/verif/MANIFEST.json','w'),indent=1)
print('claimed',len(checks),'not_applicable',len(na))
