#!/bin/sh
# Runs the repository's suite with the verif guard OFF and compares the set of passing tests with /root/.vp/BASELINE.json.
# usage: tools/baseline.sh [extra go test flags, e.g. -tags verif]
export GOFLAGS=-mod=mod GOPROXY=off GOSUMDB=off GOTOOLCHAIN=local
cd /repo || exit 2
go test "$@" -json -vet=off -count=1 -timeout 25m ./... > /tmp/verif_baseline.json 2>/dev/null
/usr/bin/python3 - <<'PY'
import json,ast,sys
b=json.load(open('/root/.vp/BASELINE.json'))
sp=b['stable_pass']
if isinstance(sp,str): sp=ast.literal_eval(sp)
want=set(sp)
got=set()
for l in open('/tmp/verif_baseline.json'):
    try: e=json.loads(l)
    except Exception: continue
    if e.get('Action')=='pass' and e.get('Test'):
        got.add(e['Package']+'::'+e['Test'])
missing=sorted(want-got)
print('baseline stable_pass=%d passing_now=%d missing=%d'%(len(want),len(got),len(missing)))
for m in missing[:20]: print('  MISSING',m)
sys.exit(1 if missing else 0)
PY
